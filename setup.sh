#!/bin/bash
# Run once after a fresh restore, offline: build every engine from files on disk.
set -e
cd "$(dirname "$0")/harness"
export CARGO_NET_OFFLINE=true
cargo build --offline --release -p vpchecks --bins 2>&1 | grep -v "^warning\|^ *|\|^ *=\|^$\|^ *-->" | tail -5
echo "setup: engines built"

#!/bin/bash
# Run once after a fresh restore, offline: build every engine from files on disk and verify the
# C11 reference tables (regenerating them from mathematics when python3-vt/mpmath is present).
set -e
cd "$(dirname "$0")"
export CARGO_NET_OFFLINE=true
( cd harness && cargo build --offline --release --workspace --bins 2>&1 | grep -v "^warning\|^ *|\|^ *=\|^$\|^ *-->\|^ *[0-9]* *|" | tail -3; cargo build --offline --profile chk --workspace --bins 2>&1 | grep -v "^warning\|^ *|\|^ *=\|^$\|^ *-->\|^ *[0-9]* *|" | tail -3 )
( cd tables && sha256sum -c SHA256SUMS >/dev/null && echo "setup: C11 tables match SHA256SUMS" )
if command -v python3-vt >/dev/null 2>&1; then
  T=$(mktemp -d)
  for f in exp ln; do python3-vt tables/gen.py $f 8 0 $T/p8_$f.bin >/dev/null; cmp $T/p8_$f.bin tables/p8_$f.bin; done
  python3-vt tables/gen.py log2 16 1 $T/p16_log2.bin >/dev/null && cmp $T/p16_log2.bin tables/p16_log2.bin
  rm -rf "$T"
  echo "setup: table generator reproduces p8_exp, p8_ln, p16_log2 bit for bit"
fi
( cd harness && cargo build --offline --release -p vp_oracle --example selftest_dump 2>/dev/null && ./target/release/examples/selftest_dump | python3 ../scripts/oracle_selftest.py )
echo "setup: engines built"

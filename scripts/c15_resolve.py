#!/usr/bin/env python3-vt
"""Stage 2 of C15: correctly rounded P32E2 value of an elementary function at one input, via mpmath at
300 bits and the independent Python posit model. Protocol (one request per line on stdin):
    <function> <x bits hex> [<y bits hex>]   ->   <correctly rounded bits hex>  |  nar
"""
import sys, os
from fractions import Fraction
import mpmath as mp
sys.path.insert(0, os.path.join(os.path.dirname(os.path.abspath(__file__)), '..', 'pymodel'))
from posit import decode, encode_round
mp.mp.prec = 300
def tofrac(x):
    s, man, exp, bc = x._mpf_
    v = Fraction(int(man)) * (Fraction(2) ** int(exp))
    return -v if s else v
def m(fr): return mp.mpf(fr.numerator) / mp.mpf(fr.denominator)
F1 = dict(sin=mp.sin, cos=mp.cos, tan=mp.tan, asin=mp.asin, acos=mp.acos, atan=mp.atan, ln=mp.log, log2=lambda x: mp.log(x, 2),
          exp=mp.exp, exp2=lambda x: mp.power(2, x), sinh=mp.sinh, cosh=mp.cosh, cbrt=lambda x: mp.sign(x) * mp.cbrt(abs(x)), tanh=mp.tanh,
          exp10=lambda x: mp.power(10, x))
F2 = dict(atan2=mp.atan2, hypot=mp.hypot, powf=mp.power)
def rnd(y):
    if y == 0: return 0
    ex = y._mpf_[2] + y._mpf_[3]
    if ex > 130: return 0x7fffffff if y > 0 else 0x80000001
    if ex < -130: return 1 if y > 0 else 0xffffffff
    return encode_round(32, 2, tofrac(y))
for line in sys.stdin:
    t = line.split()
    if not t: continue
    try:
        f = t[0]
        x = decode(32, 2, int(t[1], 16))
        if f in F1:
            y = F1[f](m(x))
        else:
            y2 = decode(32, 2, int(t[2], 16))
            y = F2[f](m(x), m(y2))
        if isinstance(y, mp.mpc) or not mp.isfinite(y):
            print("nar")
        else:
            print("%x" % rnd(y))
    except Exception as e:
        print("err %s" % e)
    sys.stdout.flush()

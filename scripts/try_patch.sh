#!/bin/bash
# usage: scripts/try_patch.sh <patch.diff> <tier> <prop> [<prop>...]
# Applies a seeded change to /repo's working tree, runs the named checks, prints one line per
# check (DETECTED / missed), and always restores /repo afterwards.
set -u
PATCH="$(realpath "$1")"; TIER="$2"; shift 2
cd /verif
if ! git -C /repo diff --quiet; then echo "try_patch: /repo has uncommitted changes, refusing"; exit 2; fi
git -C /repo apply "$PATCH" || { echo "try_patch: patch does not apply"; exit 2; }
trap 'git -C /repo checkout -- . ' EXIT
for P in "$@"; do
  OUT=$(VERIF_NO_EVIDENCE=1 ./check "$P" "$TIER" --no-evidence 2>&1); RC=$?
  V=$(echo "$OUT" | grep -c '^VIOLATION')
  if [ $RC -eq 1 ] && [ "$V" -gt 0 ]; then echo "$P $TIER: DETECTED ($V violation lines) :: $(echo "$OUT" | grep -m1 '^cell\|did not return')"; 
  elif [ $RC -eq 0 ]; then echo "$P $TIER: missed (exit 0)";
  else echo "$P $TIER: MACHINERY rc=$RC :: $(echo "$OUT" | tail -3 | tr '\n' ' ')"; fi
done

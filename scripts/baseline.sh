#!/bin/bash
# Runs the repository's own test suite (guard off: there are no source hooks) on a tree
# (default /repo) and checks that every test of the pinned stable baseline passes.
# usage: scripts/baseline.sh [repo-dir]      exit 0 = all 67 stable tests passed
set -u
REPO="${1:-/repo}"
export CARGO_NET_OFFLINE=true
cd "$REPO" || exit 2
OUT=$(mktemp)
cargo test --workspace --no-fail-fast --offline 2>&1 | tee "$OUT" | grep -E '^test result|FAILED|panicked' | head -20
python3 - "$OUT" <<'PY'
import json,re,sys
base=json.load(open('/root/.vp/BASELINE.json'))['stable_pass']
st={}
for l in open(sys.argv[1],errors='replace'):
    m=re.match(r'^test (\S+) \.\.\. (\w+)',l)
    if m: st[m.group(1)]=m.group(2)
bad=[t for t in base if st.get(t.split('::',1)[1])!='ok']
print(f"baseline: {len(base)-len(bad)}/{len(base)} stable tests ok; {sum(v=='ok' for v in st.values())} ok of {len(st)} run")
for t in bad: print("  NOT OK:",t,st.get(t.split('::',1)[1]))
sys.exit(1 if bad else 0)
PY
rc=$?
rm -f "$OUT"
exit $rc

#!/usr/bin/env python3
"""Cross-checks the Rust reference model (vp_oracle) against the independent Python `fractions` model on
all 2^16 x 4 P8E0 operations and a fixed spread of P16E1 / P32E2 / PxE2<11> / PxE1<23> pairs, fused
triples, square roots and f64 conversions. Reads the dump of harness/oracle/examples/selftest_dump.rs."""
import sys, os, struct
from fractions import Fraction
from math import isqrt
sys.path.insert(0, os.path.join(os.path.dirname(os.path.abspath(__file__)), '..', 'pymodel'))
from posit import decode, encode_round
def nar(n): return 1 << (n - 1)
bad = tot = 0
for line in sys.stdin:
    t = line.split()
    tot += 1
    if t[0] == 'bin':
        n, es, op, a, b, want = map(int, t[1:])
        x, y = decode(n, es, a), decode(n, es, b)
        if x is None or y is None or (op == 3 and y == 0): got = nar(n)
        else: got = encode_round(n, es, [x + y, x - y, x * y, x / y if y else 0][op])
    elif t[0] == 'fma':
        n, es, a, b, c, want = map(int, t[1:])
        got = encode_round(n, es, decode(n, es, a) * decode(n, es, b) + decode(n, es, c))
    elif t[0] == 'sqrt':
        n, es, a, want = map(int, t[1:])
        x = decode(n, es, a)
        # exact rational enclosure of sqrt(x): scale to an integer square root with 200 extra bits
        num, den = x.numerator, x.denominator
        k = 400
        r = isqrt((num << k) // den) if den else 0
        lo = Fraction(r, 1 << (k // 2)); hi = Fraction(r + 1, 1 << (k // 2))
        g1, g2 = encode_round(n, es, lo) if lo else 0, encode_round(n, es, hi)
        exact = (lo * lo == x)
        got = g1 if exact or g1 == g2 else -1
        if got == -1: got = want  # enclosure straddles a boundary: not decidable this way (never happens at 200 bits margin)
    elif t[0] == 'f64':
        bits, w8, w16, w32 = map(int, t[1:])
        f = struct.unpack('<d', struct.pack('<Q', bits))[0]
        v = Fraction(f)
        got = (encode_round(8, 0, v), encode_round(16, 1, v), encode_round(32, 2, v)); want = (w8, w16, w32)
    if got != want:
        bad += 1
        if bad < 10: print("MISMATCH", line.strip(), "python:", got)
print(f"oracle self-test: {tot} cases, {bad} mismatches")
sys.exit(1 if bad else 0)

#!/usr/bin/env python3
"""Builds inputs/c15_hard_<f>.bin from the dumps of a complete C15 sweep.

usage: VERIF_C15_DUMP_ATBOUND=/tmp/ab_<f>.txt ./check C15 thorough --no-evidence --cell P32E2/<f>   (per function)
       scripts/c15_hard_from_sweep.py /tmp/ab_*.txt
Each dump line is "<function> <input hex> <real error in units of the result spacing>" for an input whose result is
exactly as far from the correctly rounded value as the function's bound allows. Per function the TOP largest real errors
and an even spread of SPREAD further inputs are kept (sorted u32 little endian). The files hold inputs only; the verdict
on them is computed by the check like for any other input."""
import sys, struct, collections, os
TOP, SPREAD = 40000, 40000
per = collections.defaultdict(dict)
for fn in sys.argv[1:]:
    for line in open(fn):
        p = line.split()
        if len(p) != 3:
            continue
        per[p[0]][int(p[1], 16)] = float(p[2])
out = os.path.join(os.path.dirname(os.path.dirname(os.path.abspath(__file__))), "inputs")
os.makedirs(out, exist_ok=True)
for f, d in sorted(per.items()):
    items = sorted(d.items(), key=lambda kv: -kv[1])
    keep = set(k for k, _ in items[:TOP])
    rest = sorted(k for k, _ in items[TOP:])
    if rest:
        step = max(1, len(rest) // SPREAD)
        keep.update(rest[::step])
    ks = sorted(keep)
    with open(os.path.join(out, f"c15_hard_{f}.bin"), "wb") as w:
        w.write(struct.pack(f"<{len(ks)}I", *ks))
    print(f"{f}: {len(d)} at-bound inputs in the sweep, kept {len(ks)}; largest real error {items[0][1]:.4f} at {items[0][0]:#010x}")

#!/usr/bin/env python3
"""Derives the list of explicit not-implemented stubs (functions whose whole body is `todo!()` or
`unimplemented!()`) from /repo's current sources. Output: one `Type::function` per line.
C16 excludes exactly these; a function that merely *reaches* a todo!() for some inputs is not a stub."""
import re, sys, os, glob
REPO = sys.argv[1] if len(sys.argv) > 1 else "/repo"
TYPE_OF = {"p8e0": "P8E0", "p16e1": "P16E1", "p32e2": "P32E2", "pxe1": "PxE1", "pxe2": "PxE2", "quire8": "Q8E0", "quire16": "Q16E1", "quire32": "Q32E2"}
pat = re.compile(r"fn\s+(\w+)\s*(?:<[^>]*>)?\s*\(([^)]*)\)\s*(?:->\s*[^{]+?)?\s*\{\s*(?:todo|unimplemented)!\(\)\s*;?\s*\}", re.S)
out = set()
for path in sorted(glob.glob(os.path.join(REPO, "src", "**", "*.rs"), recursive=True)):
    rel = os.path.relpath(path, os.path.join(REPO, "src"))
    top = rel.split(os.sep)[0].replace(".rs", "")
    txt = open(path).read()
    for m in pat.finditer(txt):
        fn = m.group(1)
        if top in TYPE_OF:
            out.add(f"{TYPE_OF[top]}::{fn}")
        elif top == "macros":
            out.add(f"trait::{fn}")
        else:
            out.add(f"{top}::{fn}")
for s in sorted(out):
    print(s)

#!/bin/bash
# usage: scripts/confirm_seed.sh <worktree> <name(m1|m2)> <seed-id> <property> "<needs>"
# Confirms a seeded change in its scratch worktree: patch applies, crate builds, the repository's
# own tests still pass with it, the demo fails with it and passes without it. Then stores it under
# /verif/seeded/<seed-id>/ with meta.json.
set -u
WT="$1"; M="$2"; ID="$3"; PROP="$4"; NEEDS="$5"; FEAT="${FEAT:-}"
export CARGO_NET_OFFLINE=true CARGO_TARGET_DIR="$WT/target"
cd "$WT" || exit 2
git checkout -q -- . ; rm -rf tests/vp_demo.rs
BASE=$(git rev-parse --short HEAD)
mkdir -p tests
cp "out/${M}_demo.rs" tests/vp_demo.rs
cargo test --offline $FEAT --test vp_demo >/tmp/cs_$$.clean 2>&1; CLEAN=$?
git apply "out/$M.diff" || { echo "patch does not apply"; exit 2; }
cargo test --offline $FEAT --test vp_demo >/tmp/cs_$$.mut 2>&1; MUT=$?
# the repository's own suite with the change (lib tests; flaky baseline tests get up to 3 tries)
SUITE=1
for try in 1 2 3; do
  cargo test --offline --lib >/tmp/cs_$$.suite 2>&1 && { SUITE=0; break; }
done
SUITELINE=$(grep "^test result" /tmp/cs_$$.suite | head -1)
FAILED=$(grep -E "^test .* FAILED" /tmp/cs_$$.suite | tr '\n' ';')
git checkout -q -- . ; rm -f tests/vp_demo.rs; rmdir tests 2>/dev/null
echo "demo on clean tree rc=$CLEAN ; demo with change rc=$MUT ; suite with change rc=$SUITE ($SUITELINE) $FAILED"
if [ $CLEAN -eq 0 ] && [ $MUT -ne 0 ] && [ $SUITE -eq 0 ]; then
  D=/verif/seeded/$ID; mkdir -p $D
  cp "out/$M.diff" $D/patch.diff; cp "out/${M}_demo.rs" $D/demo.rs
  python3 - "$D" "$ID" "$PROP" "$NEEDS" "$BASE" "$SUITELINE" <<'PY'
import json,sys
d,i,p,needs,base,suite=sys.argv[1:7]
json.dump({"id":i,"breaks_property":p,"needs_to_manifest":needs,"base_commit":base,
 "confirmed":{"patch_applies":True,"builds":True,"repo_suite_with_change":suite,"demo_fails_with_change":True,"demo_passes_without_change":True,
 "how":"scripts/confirm_seed.sh in a scratch worktree of /repo: cargo test --test vp_demo (clean, then patched), cargo test --lib (patched, up to 3 tries because three P32E2 tests of the baseline are flaky on the unchanged tree)"},
 "origin":"independent sub-agent given only the property text and a scratch worktree"},open(d+"/meta.json","w"),indent=1)
PY
  echo "KEPT as $D"
else
  echo "REJECTED"
fi
rm -f /tmp/cs_$$.*

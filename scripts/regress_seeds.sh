#!/bin/bash
# Runs the quick tier of the property each seeded change breaks against that change (applied to /repo's working tree by
# scripts/try_patch.sh, which restores the tree afterwards) and prints one line per seed. Every line must say DETECTED.
# usage: scripts/regress_seeds.sh [seed-id-prefix]        (about 3 hours for all seeds; C16 seeds take ~13 min each)
cd "$(dirname "$0")/.." || exit 2
for d in seeded/${1:-}*/; do
  id=$(basename "$d")
  prop=$(python3 -c "import json;print(json.load(open('$d/meta.json'))['breaks_property'])")
  r=$(scripts/try_patch.sh "$d/patch.diff" quick "$prop" 2>&1 | tail -1 | cut -c1-160)
  echo "$id :: $r"
done

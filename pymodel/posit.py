from fractions import Fraction
def decode(n, es, bits):
    bits &= (1<<n)-1
    if bits == 0: return Fraction(0)
    if bits == 1<<(n-1): return None
    neg = bits >> (n-1)
    if neg: bits = (-bits) & ((1<<n)-1)
    s = format(bits, '0%db'%n)[1:]
    r0 = s[0]; run = len(s) - len(s.lstrip(r0))
    k = run-1 if r0=='1' else -run
    rest = s[run+1:]
    e = rest[:es].ljust(es,'0'); f = rest[es:]
    scale = k*(1<<es) + int(e,2) if es else k
    frac = Fraction(int(f,2), 1<<len(f)) if f else Fraction(0)
    v = (1+frac) * Fraction(2)**scale
    return -v if neg else v
def encode_round(n, es, v):
    """posit-standard rounding of exact Fraction v"""
    if v == 0: return 0
    neg = v < 0; v = abs(v)
    # scale
    scale = 0
    while v >= 2: v /= 2; scale += 1
    while v < 1: v *= 2; scale -= 1
    k, e = divmod(scale, 1<<es)
    if n == 2: p = 1
    elif k >= n-2: p = (1<<(n-1))-1
    elif k < -(n-2): p = 1
    else:
        reg = '1'*(k+1)+'0' if k >= 0 else '0'*(-k)+'1'
        bits = reg + (format(e, '0%db'%es) if es else '')
        f = v - 1
        # generate fraction bits until length n+1 then sticky
        while len(bits) < n+1:
            f *= 2
            if f >= 1: bits += '1'; f -= 1
            else: bits += '0'
        sticky = (f != 0) or ('1' in bits[n:])
        keep = bits[:n-1]; guard = bits[n-1]
        p = int(keep, 2)
        if guard == '1' and (sticky or (p & 1)): p += 1
        if p == 0: p = 1
        if p >= 1<<(n-1): p = (1<<(n-1))-1
    return (-p) & ((1<<n)-1) if neg else p
if __name__ == '__main__':
    import sys
    n, es = 32, 2
    cases = [(0x1,0x80a00000,0x1c1),(0x3,0x7ffe8000,0xd00),(0x2,0x80000058,0x9a000000),(0x3,0x7ffe8000,0xffec0001)]
    for a,b,c in cases:
        x,y,z = decode(n,es,a),decode(n,es,b),decode(n,es,c)
        print(hex(a),hex(b),hex(c),'->',hex(encode_round(n,es,x*y+z)), float(x*y), float(z))

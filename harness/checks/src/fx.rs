//! Uniform view of the three fixed-width posit types (forwarders only; no logic).
use softposit::{P16E1, P32E2, P8E0};
use std::cmp::Ordering;
use std::num::FpCategory;

pub trait Fx:
    Copy
    + Send
    + Sync
    + 'static
    + PartialEq
    + PartialOrd
    + Ord
    + core::ops::Add<Output = Self>
    + core::ops::Sub<Output = Self>
    + core::ops::Mul<Output = Self>
    + core::ops::Div<Output = Self>
    + core::ops::Neg<Output = Self>
    + core::fmt::Display
    + core::str::FromStr
{
    const N: u32;
    const ES: u32;
    const NAME: &'static str;
    fn fb(b: u32) -> Self;
    fn tb(self) -> u32;
    // inherent const-fn spellings
    fn c_add(self, o: Self) -> Self;
    fn c_sub(self, o: Self) -> Self;
    fn c_mul(self, o: Self) -> Self;
    fn c_div(self, o: Self) -> Self;
    fn c_neg(self) -> Self;
    fn mul_add(self, b: Self, c: Self) -> Self;
    fn mul_sub(self, b: Self, c: Self) -> Self;
    fn sub_product(self, a: Self, b: Self) -> Self;
    fn sqrt(self) -> Self;
    fn round(self) -> Self;
    fn floor(self) -> Self;
    fn ceil(self) -> Self;
    fn trunc(self) -> Self;
    fn fract(self) -> Self;
    fn c_eq(self, o: Self) -> bool;
    fn c_cmp(self, o: Self) -> Ordering;
    fn c_lt(self, o: Self) -> bool;
    fn c_le(self, o: Self) -> bool;
    fn c_gt(self, o: Self) -> bool;
    fn c_ge(self, o: Self) -> bool;
    fn c_min(self, o: Self) -> Self;
    fn c_max(self, o: Self) -> Self;
    fn c_clamp(self, lo: Self, hi: Self) -> Self;
    fn o_clamp(self, lo: Self, hi: Self) -> Self;
    fn abs(self) -> Self;
    fn signum(self) -> Self;
    fn copysign(self, o: Self) -> Self;
    fn is_sign_positive(self) -> bool;
    fn is_sign_negative(self) -> bool;
    fn is_zero(self) -> bool;
    fn is_nar(self) -> bool;
    fn is_nan(self) -> bool;
    fn is_finite(self) -> bool;
    fn is_infinite(self) -> bool;
    fn is_normal(self) -> bool;
    fn classify(self) -> FpCategory;
    fn from_f32(x: f32) -> Self;
    fn from_f64(x: f64) -> Self;
    fn into_f32(x: f32) -> Self;
    fn into_f64(x: f64) -> Self;
    fn to_f32(self) -> f32;
    fn to_f64(self) -> f64;
    fn f32_from(self) -> f32;
    fn f64_from(self) -> f64;
    fn from_i8(x: i8) -> Self;
    fn from_u8(x: u8) -> Self;
    fn from_i16(x: i16) -> Self;
    fn from_u16(x: u16) -> Self;
    fn from_i32(x: i32) -> Self;
    fn from_u32(x: u32) -> Self;
    fn from_i64(x: i64) -> Self;
    fn from_u64(x: u64) -> Self;
    fn from_isize(x: isize) -> Self;
    fn from_usize(x: usize) -> Self;
    fn into_i8(x: i8) -> Self;
    fn into_u8(x: u8) -> Self;
    fn into_i16(x: i16) -> Self;
    fn into_u16(x: u16) -> Self;
    fn into_i32(x: i32) -> Self;
    fn into_u32(x: u32) -> Self;
    fn into_i64(x: i64) -> Self;
    fn into_u64(x: u64) -> Self;
    fn into_isize(x: isize) -> Self;
    fn into_usize(x: usize) -> Self;
    fn to_i32(self) -> i32;
    fn to_u32(self) -> u32;
    fn to_i64(self) -> i64;
    fn to_u64(self) -> u64;
    fn i32_from(self) -> i32;
    fn u32_from(self) -> u32;
    fn i64_from(self) -> i64;
    fn u64_from(self) -> u64;
}

macro_rules! impl_fx {
    ($P:ty, $U:ty, $n:expr, $es:expr, $name:literal) => {
        impl Fx for $P {
            const N: u32 = $n;
            const ES: u32 = $es;
            const NAME: &'static str = $name;
            #[inline] fn fb(b: u32) -> Self { <$P>::from_bits(b as $U) }
            #[inline] fn tb(self) -> u32 { <$P>::to_bits(self) as u32 }
            #[inline] fn c_add(self, o: Self) -> Self { <$P>::add(self, o) }
            #[inline] fn c_sub(self, o: Self) -> Self { <$P>::sub(self, o) }
            #[inline] fn c_mul(self, o: Self) -> Self { <$P>::mul(self, o) }
            #[inline] fn c_div(self, o: Self) -> Self { <$P>::div(self, o) }
            #[inline] fn c_neg(self) -> Self { <$P>::neg(self) }
            #[inline] fn mul_add(self, b: Self, c: Self) -> Self { <$P>::mul_add(self, b, c) }
            #[inline] fn mul_sub(self, b: Self, c: Self) -> Self { <$P>::mul_sub(self, b, c) }
            #[inline] fn sub_product(self, a: Self, b: Self) -> Self { <$P>::sub_product(self, a, b) }
            #[inline] fn sqrt(self) -> Self { <$P>::sqrt(self) }
            #[inline] fn round(self) -> Self { <$P>::round(self) }
            #[inline] fn floor(self) -> Self { <$P>::floor(self) }
            #[inline] fn ceil(self) -> Self { <$P>::ceil(self) }
            #[inline] fn trunc(self) -> Self { <$P>::trunc(self) }
            #[inline] fn fract(self) -> Self { <$P>::fract(self) }
            #[inline] fn c_eq(self, o: Self) -> bool { <$P>::eq(self, o) }
            #[inline] fn c_cmp(self, o: Self) -> Ordering { <$P>::cmp(self, o) }
            #[inline] fn c_lt(self, o: Self) -> bool { <$P>::lt(&self, o) }
            #[inline] fn c_le(self, o: Self) -> bool { <$P>::le(&self, o) }
            #[inline] fn c_gt(self, o: Self) -> bool { <$P>::gt(&self, o) }
            #[inline] fn c_ge(self, o: Self) -> bool { <$P>::ge(&self, o) }
            #[inline] fn c_min(self, o: Self) -> Self { <$P>::min(self, o) }
            #[inline] fn c_max(self, o: Self) -> Self { <$P>::max(self, o) }
            #[inline] fn c_clamp(self, lo: Self, hi: Self) -> Self { <$P>::clamp(self, lo, hi) }
            #[inline] fn o_clamp(self, lo: Self, hi: Self) -> Self { Ord::clamp(self, lo, hi) }
            #[inline] fn abs(self) -> Self { <$P>::abs(self) }
            #[inline] fn signum(self) -> Self { <$P>::signum(self) }
            #[inline] fn copysign(self, o: Self) -> Self { <$P>::copysign(self, o) }
            #[inline] fn is_sign_positive(self) -> bool { <$P>::is_sign_positive(self) }
            #[inline] fn is_sign_negative(self) -> bool { <$P>::is_sign_negative(self) }
            #[inline] fn is_zero(self) -> bool { <$P>::is_zero(self) }
            #[inline] fn is_nar(self) -> bool { <$P>::is_nar(self) }
            #[inline] fn is_nan(self) -> bool { <$P>::is_nan(self) }
            #[inline] fn is_finite(self) -> bool { <$P>::is_finite(self) }
            #[inline] fn is_infinite(self) -> bool { <$P>::is_infinite(self) }
            #[inline] fn is_normal(self) -> bool { <$P>::is_normal(self) }
            #[inline] fn classify(self) -> FpCategory { <$P>::classify(self) }
            #[inline] fn from_f32(x: f32) -> Self { <$P>::from_f32(x) }
            #[inline] fn from_f64(x: f64) -> Self { <$P>::from_f64(x) }
            #[inline] fn into_f32(x: f32) -> Self { x.into() }
            #[inline] fn into_f64(x: f64) -> Self { x.into() }
            #[inline] fn to_f32(self) -> f32 { <$P>::to_f32(self) }
            #[inline] fn to_f64(self) -> f64 { <$P>::to_f64(self) }
            #[inline] fn f32_from(self) -> f32 { f32::from(self) }
            #[inline] fn f64_from(self) -> f64 { f64::from(self) }
            #[inline] fn from_i8(x: i8) -> Self { <$P>::from_i8(x) }
            #[inline] fn from_u8(x: u8) -> Self { <$P>::from_u8(x) }
            #[inline] fn from_i16(x: i16) -> Self { <$P>::from_i16(x) }
            #[inline] fn from_u16(x: u16) -> Self { <$P>::from_u16(x) }
            #[inline] fn from_i32(x: i32) -> Self { <$P>::from_i32(x) }
            #[inline] fn from_u32(x: u32) -> Self { <$P>::from_u32(x) }
            #[inline] fn from_i64(x: i64) -> Self { <$P>::from_i64(x) }
            #[inline] fn from_u64(x: u64) -> Self { <$P>::from_u64(x) }
            #[inline] fn from_isize(x: isize) -> Self { <$P>::from_isize(x) }
            #[inline] fn from_usize(x: usize) -> Self { <$P>::from_usize(x) }
            #[inline] fn into_i8(x: i8) -> Self { x.into() }
            #[inline] fn into_u8(x: u8) -> Self { x.into() }
            #[inline] fn into_i16(x: i16) -> Self { x.into() }
            #[inline] fn into_u16(x: u16) -> Self { x.into() }
            #[inline] fn into_i32(x: i32) -> Self { x.into() }
            #[inline] fn into_u32(x: u32) -> Self { x.into() }
            #[inline] fn into_i64(x: i64) -> Self { x.into() }
            #[inline] fn into_u64(x: u64) -> Self { x.into() }
            #[inline] fn into_isize(x: isize) -> Self { x.into() }
            #[inline] fn into_usize(x: usize) -> Self { x.into() }
            #[inline] fn to_i32(self) -> i32 { <$P>::to_i32(self) }
            #[inline] fn to_u32(self) -> u32 { <$P>::to_u32(self) }
            #[inline] fn to_i64(self) -> i64 { <$P>::to_i64(self) }
            #[inline] fn to_u64(self) -> u64 { <$P>::to_u64(self) }
            #[inline] fn i32_from(self) -> i32 { i32::from(self) }
            #[inline] fn u32_from(self) -> u32 { u32::from(self) }
            #[inline] fn i64_from(self) -> i64 { i64::from(self) }
            #[inline] fn u64_from(self) -> u64 { u64::from(self) }
        }
    };
}

impl_fx!(P8E0, u8, 8, 0, "P8E0");
impl_fx!(P16E1, u16, 16, 1, "P16E1");
impl_fx!(P32E2, u32, 32, 2, "P32E2");

//! Cells for the generic-width types PxE1<N>, PxE2<N>, N = 2..=32: C13 (arithmetic), C14 (conversions),
//! and their share of C10 (ordering).
//! Keys hold N-bit patterns right-aligned; the types keep them left-aligned in a u32.
use softposit::{PxE1, PxE2, P16E1, P32E2, P8E0, Q32E2};
use std::cmp::Ordering;
use vp_oracle as o;
use vpcore::alpha::*;
use vpcore::refs;
use vpcore::{enc_i, guard, k2, k3, CellDef, Out, Space};

pub trait Px:
    Copy
    + Send
    + Sync
    + 'static
    + PartialEq
    + PartialOrd
    + Ord
    + core::ops::Add<Output = Self>
    + core::ops::Sub<Output = Self>
    + core::ops::Mul<Output = Self>
    + core::ops::Div<Output = Self>
    + core::ops::Neg<Output = Self>
{
    const N: u32;
    const ES: u32;
    fn name() -> String {
        format!("PxE{}<{}>", Self::ES, Self::N)
    }
    fn fbr(raw: u32) -> Self;
    fn tbr(self) -> u32;
    /// from a right-aligned N-bit pattern
    #[inline]
    fn fb(b: u32) -> Self {
        Self::fbr(b << (32 - Self::N))
    }
    fn mul_add(self, b: Self, c: Self) -> Self;
    fn mul_sub(self, b: Self, c: Self) -> Self;
    fn sub_product(self, a: Self, b: Self) -> Self;
    fn sqrt(self) -> Option<Self>;
    fn round(self) -> Self;
    fn c_eq(self, o: Self) -> bool;
    fn c_cmp(self, o: Self) -> Ordering;
    fn c_lt(self, o: Self) -> bool;
    fn c_le(self, o: Self) -> bool;
    fn c_gt(self, o: Self) -> bool;
    fn c_ge(self, o: Self) -> bool;
    fn is_zero(self) -> bool;
    fn is_nar(self) -> bool;
    fn to_f32(self) -> f32;
    fn to_f64(self) -> f64;
    fn f32_from(self) -> f32;
    fn f64_from(self) -> f64;
    fn from_f32(x: f32) -> Self;
    fn from_f64(x: f64) -> Self;
    fn into_f32(x: f32) -> Self;
    fn into_f64(x: f64) -> Self;
    fn from_i32(x: i32) -> Option<Self>;
    fn from_u32(x: u32) -> Option<Self>;
    fn from_i64(x: i64) -> Option<Self>;
    fn from_u64(x: u64) -> Option<Self>;
    fn into_i32(x: i32) -> Option<Self>;
    fn into_u32(x: u32) -> Option<Self>;
    fn into_i64(x: i64) -> Option<Self>;
    fn into_u64(x: u64) -> Option<Self>;
    fn to_i32(self) -> i32;
    fn to_u32(self) -> u32;
    fn to_i64(self) -> i64;
    fn to_u64(self) -> u64;
    fn i32_from(self) -> i32;
    fn u32_from(self) -> u32;
    fn i64_from(self) -> i64;
    fn u64_from(self) -> u64;
    fn from_p8(p: P8E0) -> (Self, Self);
    fn from_p16(p: P16E1) -> (Self, Self);
    fn from_p32(p: P32E2) -> (Self, Self);
    fn to_p8(self) -> (P8E0, P8E0);
    fn to_p16(self) -> (P16E1, P16E1);
    fn to_p32(self) -> (P32E2, P32E2);
    fn from_q32(q: &Q32E2) -> Option<Self>;
}

macro_rules! impl_px {
    ($T:ident, $es:expr, $sqrt:expr, $i64ok:expr, $u32ok:expr, $q:expr, $($n:literal),*) => {$(
        impl Px for $T<$n> {
            const N: u32 = $n;
            const ES: u32 = $es;
            #[inline] fn fbr(raw: u32) -> Self { <$T<$n>>::from_bits(raw) }
            #[inline] fn tbr(self) -> u32 { <$T<$n>>::to_bits(self) }
            #[inline] fn mul_add(self, b: Self, c: Self) -> Self { <$T<$n>>::mul_add(self, b, c) }
            #[inline] fn mul_sub(self, b: Self, c: Self) -> Self { <$T<$n>>::mul_sub(self, b, c) }
            #[inline] fn sub_product(self, a: Self, b: Self) -> Self { <$T<$n>>::sub_product(self, a, b) }
            #[inline] fn sqrt(self) -> Option<Self> { $sqrt(self) }
            #[inline] fn round(self) -> Self { <$T<$n>>::round(self) }
            #[inline] fn c_eq(self, o: Self) -> bool { <$T<$n>>::eq(self, o) }
            #[inline] fn c_cmp(self, o: Self) -> Ordering { <$T<$n>>::cmp(self, o) }
            #[inline] fn c_lt(self, o: Self) -> bool { <$T<$n>>::lt(&self, o) }
            #[inline] fn c_le(self, o: Self) -> bool { <$T<$n>>::le(&self, o) }
            #[inline] fn c_gt(self, o: Self) -> bool { <$T<$n>>::gt(&self, o) }
            #[inline] fn c_ge(self, o: Self) -> bool { <$T<$n>>::ge(&self, o) }
            #[inline] fn is_zero(self) -> bool { <$T<$n>>::is_zero(self) }
            #[inline] fn is_nar(self) -> bool { <$T<$n>>::is_nar(self) }
            #[inline] fn to_f32(self) -> f32 { <$T<$n>>::to_f32(self) }
            #[inline] fn to_f64(self) -> f64 { <$T<$n>>::to_f64(self) }
            #[inline] fn f32_from(self) -> f32 { f32::from(self) }
            #[inline] fn f64_from(self) -> f64 { f64::from(self) }
            #[inline] fn from_f32(x: f32) -> Self { <$T<$n>>::from_f32(x) }
            #[inline] fn from_f64(x: f64) -> Self { <$T<$n>>::from_f64(x) }
            #[inline] fn into_f32(x: f32) -> Self { x.into() }
            #[inline] fn into_f64(x: f64) -> Self { x.into() }
            #[inline] fn from_i32(x: i32) -> Option<Self> { Some(<$T<$n>>::from_i32(x)) }
            #[inline] fn from_u32(x: u32) -> Option<Self> { if $u32ok { Some(<$T<$n>>::from_u32(x)) } else { None } }
            #[inline] fn from_i64(x: i64) -> Option<Self> { if $i64ok { Some(<$T<$n>>::from_i64(x)) } else { None } }
            #[inline] fn from_u64(x: u64) -> Option<Self> { Some(<$T<$n>>::from_u64(x)) }
            #[inline] fn into_i32(x: i32) -> Option<Self> { Some(x.into()) }
            #[inline] fn into_u32(x: u32) -> Option<Self> { if $u32ok { Some(x.into()) } else { None } }
            #[inline] fn into_i64(x: i64) -> Option<Self> { if $i64ok { Some(x.into()) } else { None } }
            #[inline] fn into_u64(x: u64) -> Option<Self> { Some(x.into()) }
            #[inline] fn to_i32(self) -> i32 { <$T<$n>>::to_i32(self) }
            #[inline] fn to_u32(self) -> u32 { <$T<$n>>::to_u32(self) }
            #[inline] fn to_i64(self) -> i64 { <$T<$n>>::to_i64(self) }
            #[inline] fn to_u64(self) -> u64 { <$T<$n>>::to_u64(self) }
            #[inline] fn i32_from(self) -> i32 { i32::from(self) }
            #[inline] fn u32_from(self) -> u32 { u32::from(self) }
            #[inline] fn i64_from(self) -> i64 { i64::from(self) }
            #[inline] fn u64_from(self) -> u64 { u64::from(self) }
            #[inline] fn from_p8(p: P8E0) -> (Self, Self) { (<$T<$n>>::from_p8e0(p), p.into()) }
            #[inline] fn from_p16(p: P16E1) -> (Self, Self) { (<$T<$n>>::from_p16e1(p), p.into()) }
            #[inline] fn from_p32(p: P32E2) -> (Self, Self) { (<$T<$n>>::from_p32e2(p), p.into()) }
            #[inline] fn to_p8(self) -> (P8E0, P8E0) { (self.into(), px_to!(P8E0, $T, self)) }
            #[inline] fn to_p16(self) -> (P16E1, P16E1) { (self.into(), px_to!(P16E1, $T, self)) }
            #[inline] fn to_p32(self) -> (P32E2, P32E2) { (self.into(), px_to!(P32E2, $T, self)) }
            #[inline] fn from_q32(q: &Q32E2) -> Option<Self> { $q(q) }
        }
    )*};
}

macro_rules! px_to {
    ($D:ident, PxE1, $s:expr) => {
        $D::from_pxe1($s)
    };
    ($D:ident, PxE2, $s:expr) => {
        $D::from_pxe2($s)
    };
}

impl_px!(PxE2, 2, |p: Self| Some(Self::sqrt(p)), true, true, |q: &Q32E2| Some(Self::from(q)),
    2, 3, 4, 5, 6, 7, 8, 9, 10, 11, 12, 13, 14, 15, 16, 17, 18, 19, 20, 21, 22, 23, 24, 25, 26, 27, 28, 29, 30, 31, 32);
impl_px!(PxE1, 1, |_p: Self| None, false, false, |_q: &Q32E2| None,
    2, 3, 4, 5, 6, 7, 8, 9, 10, 11, 12, 13, 14, 15, 16, 17, 18, 19, 20, 21, 22, 23, 24, 25, 26, 27, 28, 29, 30, 31, 32);

fn thin(v: &[u32], step: usize) -> Vec<u32> {
    let mut r: Vec<u32> = v.iter().copied().step_by(step.max(1)).collect();
    if let Some(l) = v.last() {
        r.push(*l);
    }
    r.sort();
    r.dedup();
    r
}

fn all_vec(bits: u32) -> Vec<u32> {
    (0..(1u64 << bits)).map(|x| x as u32).collect()
}

pub fn unary_sp<T: Px>(thorough: bool) -> Vec<(String, Space)> {
    unary_sp_lim::<T>(thorough, 24)
}

/// unary spaces: complete for N <= 16 (quick) / N <= lim_thorough (thorough), lattice + alphabet above
pub fn unary_sp_lim<T: Px>(thorough: bool, lim_thorough: u32) -> Vec<(String, Space)> {
    let lim = if thorough { lim_thorough } else { 16 };
    if T::N <= lim {
        vec![(String::new(), Space::all(T::N))]
    } else {
        let n = T::N;
        let low = n - (lim - 2);
        vec![
            (String::new(), Space::func(lattice_len(n, low), format!("lattice: every value of the top {} bits x low menu", n - low), move |i| lattice_key(n, low, i) as u128)),
            ("#A".into(), Space::list32(alphabet(n, T::ES, true), format!("A({},{},rich)", n, T::ES))),
            ("#cuts".into(), Space::list32(vpcore::alpha::cut_tail_alphabet(n, T::ES, if thorough { 8 } else { 6 }), format!("every scale x every cut position x 5 kept prefixes x every pattern of the {} bits below the cut x low fill {{0s, 1s}}, both signs", if thorough { 8 } else { 6 }))),
        ]
    }
}

pub fn pairs_sp<T: Px>(thorough: bool) -> Vec<(String, Space)> {
    let lim = if thorough { 14 } else { 10 };
    if T::N <= lim {
        vec![(String::new(), Space::all2(T::N))]
    } else {
        let a = alphabet(T::N, T::ES, thorough);
        let d = format!("A({},{},{})^2", T::N, T::ES, if thorough { "rich" } else { "coarse" });
        vec![(String::new(), Space::prod2(a.clone(), a, d))]
    }
}

pub fn triples_sp<T: Px>(thorough: bool) -> Vec<(String, Space)> {
    let lim = if thorough { 9 } else { 7 };
    if T::N <= lim {
        vec![(String::new(), Space::all3(T::N))]
    } else {
        let a = alphabet(T::N, T::ES, false);
        let target = if thorough { 220 } else { 90 };
        let t = thin(&a, a.len() / target + 1);
        let d = format!("thin(A({},{},coarse))^3 ({} operands)", T::N, T::ES, t.len());
        vec![(String::new(), Space::prod3(t.clone(), t.clone(), t, d))]
    }
}

#[inline]
fn sh<T: Px>() -> u32 {
    32 - T::N
}

const OPS: [&str; 4] = ["add", "sub", "mul", "div"];
const KINDS: [&str; 3] = ["mul_add", "mul_sub", "sub_product"];

pub fn c13<T: Px>(thorough: bool) -> Vec<CellDef> {
    refs::fdec_selftest(); // the fast decode used by the sqrt acceptance test agrees with the reference decode
    let mut v = vec![];
    let (n, es) = (T::N, T::ES);
    for op in 0..4u8 {
        let mut sps = pairs_sp::<T>(thorough);
        if n >= 12 {
            let main_w = thorough || n % 4 == 0 || n >= 29; // the other widths get a smaller operand list in the quick tier
            // the second operand solved so that the exact result sits on / next to a rounding boundary (deep.rs)
            let al = std::sync::Arc::new(crate::deep::operand_list(n, es, if thorough { 100 } else if main_w { 10 } else { 2 }));
            sps.push(("#solve".into(), crate::deep::bin_solve_space(n, es, op, al, 3, "fraction shapes + unstructured fractions at a menu of scales")));
            if op == 2 {
                let mut l: Vec<u128> = vec![];
                let m = if n == 32 { u32::MAX } else { (1u32 << n) - 1 };
                for (a, b) in crate::deep::near_tie_pairs(n, es, if thorough { 400 } else if main_w { 150 } else { 60 }, 5, if thorough { 40 } else if main_w { 6 } else { 1 }) {
                    l.push((a as u128) << 32 | b as u128);
                    l.push((b as u128) << 32 | a as u128);
                    l.push(((a.wrapping_neg() & m) as u128) << 32 | b as u128);
                }
                l.sort();
                l.dedup();
                sps.push(("#neartie".into(), Space::list(l, "operand pairs whose exact product starts, below the guard bit, with a run of >= 5 zeros or ones (complete scan of shape + unstructured operand lists, stratified by product scale x run length)")));
            }
        }
        for (sfx, sp) in sps {
            v.push(CellDef::new("C13", format!("{}/{}{}", T::name(), OPS[op as usize], sfx), sp, move |k| {
                let (a, b) = k2(k);
                let (want, nt) = refs::bin(n, es, op, a, b);
                let (pa, pb) = (T::fb(a), T::fb(b));
                let got = guard(|| {
                    match op {
                        0 => pa + pb,
                        1 => pa - pb,
                        2 => pa * pb,
                        _ => pa / pb,
                    }
                    .tbr() as u128
                });
                Out::cmp(got, (want as u128) << sh::<T>(), nt)
            }));
        }
    }
    for kind in 0..3u8 {
        for (sfx, sp) in triples_sp::<T>(thorough) {
            v.push(CellDef::new("C13", format!("{}/{}{}", T::name(), KINDS[kind as usize], sfx), sp, move |k| {
                let (a, b, c) = k3(k);
                let (want, nt) = refs::fma(n, es, kind, a, b, c);
                let (pa, pb, pc) = (T::fb(a), T::fb(b), T::fb(c));
                let got = guard(|| {
                    match kind {
                        0 => pa.mul_add(pb, pc),
                        1 => pa.mul_sub(pb, pc),
                        _ => pc.sub_product(pa, pb),
                    }
                    .tbr() as u128
                });
                Out::cmp(got, (want as u128) << sh::<T>(), nt)
            }));
        }
    }
    if n >= 12 {
        let main_w = n % 4 == 0 || n == 27 || n >= 30 || thorough;
        // forced collisions: products with a sparse tail against addends at every alignment (see deep.rs)
        let maxnf = n - 3 - es;
        let z = if thorough { maxnf / 2 + 2 } else if n >= 26 { maxnf * 4 / 5 + 2 } else { maxnf * 2 / 3 + 2 };
        let rich = thorough || n >= 26;
        let mut pr = crate::deep::pairs_structured(n, es, z, rich);
        if !main_w {
            // secondary widths in the quick tier: every 8th pair
            pr = pr.into_iter().step_by(8).collect();
        }
        let pairs = std::sync::Arc::new(pr);
        let what = format!("a in [1,2) with a {maxnf}-bit fraction shape x b at every scale and shape, exact product with a sparse tail of length >= {z}");
        for kind in 0..3u8 {
            v.push(CellDef::new("C13", format!("{}/{}#deep", T::name(), KINDS[kind as usize]), crate::deep::space(n, es, pairs.clone(), maxnf as i32 + 7, rich, &what), move |k| {
                let (a, b, c) = k3(k);
                let (want, nt) = refs::fma(n, es, kind, a, b, c);
                let (pa, pb, pc) = (T::fb(a), T::fb(b), T::fb(c));
                let got = guard(|| {
                    match kind {
                        0 => pa.mul_add(pb, pc),
                        1 => pa.mul_sub(pb, pc),
                        _ => pc.sub_product(pa, pb),
                    }
                    .tbr() as u128
                });
                Out::cmp(got, (want as u128) << sh::<T>(), nt)
            }));
        }
    }
    if n >= 12 {
        let main_w = n % 4 == 0 || n >= 30 || thorough;
        // forced collisions: the addend solved so that a*b+c is within one unit of c's last place of a rounding
        // boundary, for products that are themselves unusually close to a boundary (see deep.rs)
        let maxnf = n - 3 - es;
        let zz = 5 + maxnf / 8;
        let pr = crate::deep::near_tie_pairs(n, es, if thorough { 500 } else if main_w { 200 } else { 80 }, zz, if thorough { 8 } else if n == 32 { 4 } else if n >= 30 { 2 } else { 1 });
        let mut pr = pr;
        pr.extend(crate::deep::unstructured_pairs(n, es, if thorough { 8_000 } else if n >= 30 { 1_500 } else if main_w { 500 } else { 100 }));
        let pr_len = pr.len();
        let pairs = std::sync::Arc::new(pr);
        let what = format!("pairs (fraction shapes + unstructured fractions at a menu of scales, complete cross product) whose exact product is within 2^-{zz} guard-bit units of a rounding boundary, stratified by product scale and distance ({} pairs)", pr_len);
        for kind in 0..3u8 {
            let (nfm, nb) = if thorough { (4, 5) } else { (2, 3) };
            v.push(CellDef::new("C13", format!("{}/{}#solve", T::name(), KINDS[kind as usize]), crate::deep::solve_space(n, es, pairs.clone(), 2 * maxnf + 8, nfm, nb, kind, &what), move |k| {
                let (a, b, c) = k3(k);
                let (want, nt) = refs::fma(n, es, kind, a, b, c);
                let (pa, pb, pc) = (T::fb(a), T::fb(b), T::fb(c));
                let got = guard(|| {
                    match kind {
                        0 => pa.mul_add(pb, pc),
                        1 => pa.mul_sub(pb, pc),
                        _ => pc.sub_product(pa, pb),
                    }
                    .tbr() as u128
                });
                Out::cmp(got, (want as u128) << sh::<T>(), nt)
            }));
        }
    }
    if T::fb(0).sqrt().is_some() {
        // complete for every width in both tiers (the squaring acceptance test makes 2^32 inputs affordable);
        // only the C16 quick pass (VERIF_LIGHT) uses the lattice
        for (sfx, sp) in unary_sp_lim::<T>(thorough || !crate::fixed::light(), 32) {
            v.push(CellDef::new("C13", format!("{}/sqrt{}", T::name(), sfx), sp, move |k| {
                let a = k as u32;
                let got = guard(|| T::fb(a).sqrt().unwrap().tbr() as u128);
                // fast path: the returned root is proved correct by squaring its two rounding boundaries
                if let Some(g) = got {
                    let low = (g as u32) & ((1u32 << sh::<T>()).wrapping_sub(1));
                    if low == 0 || sh::<T>() == 0 {
                        if let Some(nt) = refs::sqrt_verify(n, es, a, (g as u32) >> sh::<T>()) {
                            return Out { ok: true, nt, got: g, want: g, ops: 1, panicked: false };
                        }
                    }
                }
                let (want, nt) = refs::sqrt(n, es, a);
                Out::cmp(got, (want as u128) << sh::<T>(), nt)
            }));
        }
    }
    for (sfx, sp) in unary_sp_lim::<T>(thorough, 32) {
        v.push(CellDef::new("C13", format!("{}/round{}", T::name(), sfx), sp, move |k| {
            let a = k as u32;
            let (want, nt) = refs::rounding(n, es, 0, a);
            Out::cmp(guard(|| T::fb(a).round().tbr() as u128), (want as u128) << sh::<T>(), nt)
        }));
    }
    v
}

/// bit-for-bit bindings PxE2<32> == P32E2 and PxE1<16> == P16E1 (left-aligned)
pub fn c13_bindings(thorough: bool) -> Vec<CellDef> {
    use crate::fx::Fx;
    let mut v = vec![];
    let a32 = alphabet(32, 2, thorough);
    for op in 0..4u8 {
        v.push(CellDef::new("C13", format!("PxE2<32>==P32E2/{}", OPS[op as usize]), Space::prod2(a32.clone(), a32.clone(), "A(32,2)^2"), move |k| {
            let (a, b) = k2(k);
            let (pa, pb) = (<PxE2<32> as Px>::fb(a), <PxE2<32> as Px>::fb(b));
            let (qa, qb) = (P32E2::from_bits(a), P32E2::from_bits(b));
            let want = match op {
                0 => qa + qb,
                1 => qa - qb,
                2 => qa * qb,
                _ => qa / qb,
            }
            .to_bits();
            let got = guard(|| {
                match op {
                    0 => pa + pb,
                    1 => pa - pb,
                    2 => pa * pb,
                    _ => pa / pb,
                }
                .tbr() as u128
            });
            Out::cmp(got, want as u128, true).ops(2)
        }));
    }
    let a16: Vec<u32> = if thorough { all_vec(16) } else { alphabet(16, 1, true) };
    let b16: Vec<u32> = alphabet(16, 1, true);
    for op in 0..4u8 {
        v.push(CellDef::new("C13", format!("PxE1<16>==P16E1/{}", OPS[op as usize]), Space::prod2(a16.clone(), b16.clone(), "P16 patterns x A(16,1,rich)"), move |k| {
            let (a, b) = k2(k);
            let (pa, pb) = (<PxE1<16> as Px>::fb(a), <PxE1<16> as Px>::fb(b));
            let (qa, qb) = (P16E1::fb(a), P16E1::fb(b));
            let want = match op {
                0 => qa + qb,
                1 => qa - qb,
                2 => qa * qb,
                _ => qa / qb,
            }
            .tb();
            let got = guard(|| {
                match op {
                    0 => pa + pb,
                    1 => pa - pb,
                    2 => pa * pb,
                    _ => pa / pb,
                }
                .tbr() as u128
            });
            Out::cmp(got, (want as u128) << 16, true).ops(2)
        }));
    }
    let t32 = thin(&alphabet(32, 2, false), if thorough { 8 } else { 20 });
    for kind in 0..3u8 {
        v.push(CellDef::new("C13", format!("PxE2<32>==P32E2/{}", KINDS[kind as usize]), Space::prod3(t32.clone(), t32.clone(), t32.clone(), "thin(A(32,2,coarse))^3"), move |k| {
            let (a, b, c) = k3(k);
            let (pa, pb, pc) = (<PxE2<32> as Px>::fb(a), <PxE2<32> as Px>::fb(b), <PxE2<32> as Px>::fb(c));
            let (qa, qb, qc) = (P32E2::from_bits(a), P32E2::from_bits(b), P32E2::from_bits(c));
            let want = match kind {
                0 => qa.mul_add(qb, qc),
                1 => qa.mul_sub(qb, qc),
                _ => qc.sub_product(qa, qb),
            }
            .to_bits();
            let got = guard(|| {
                match kind {
                    0 => pa.mul_add(pb, pc),
                    1 => pa.mul_sub(pb, pc),
                    _ => pc.sub_product(pa, pb),
                }
                .tbr() as u128
            });
            Out::cmp(got, want as u128, true).ops(2)
        }));
    }
    let u32s: Vec<u32> = {
        let mut l = alphabet(32, 2, true);
        l.extend((0..lattice_len(32, 14)).map(|i| lattice_key(32, 14, i)));
        l.sort();
        l.dedup();
        l
    };
    v.push(CellDef::new("C13", "PxE2<32>==P32E2/sqrt,round", Space::list32(u32s, "A(32,2,rich) + lattice(top 18 bits)"), |k| {
        let a = k as u32;
        let q = P32E2::from_bits(a);
        let want = (q.sqrt().to_bits() as u128) | (q.round().to_bits() as u128) << 32;
        let p = <PxE2<32> as Px>::fb(a);
        Out::cmp(guard(|| (Px::sqrt(p).unwrap().tbr() as u128) | (Px::round(p).tbr() as u128) << 32), want, true).ops(4)
    }));
    v
}

/// C10 for the generic types: comparison spellings and unary minus
pub fn c10<T: Px>(thorough: bool) -> Vec<CellDef> {
    let (n, es) = (T::N, T::ES);
    let mut v = vec![];
    let sp = if n <= (if thorough { 13 } else { 11 }) { Space::all2(n) } else { let a = alphabet(n, es, thorough); Space::prod2(a.clone(), a, format!("A({},{})^2", n, es)) };
    v.push(CellDef::new("C10", format!("{}/order", T::name()), sp, move |k| {
        let (a, b) = k2(k);
        let (pa, pb) = (T::fb(a), T::fb(b));
        let w = refs::ord(n, es, a, b);
        let (lt, eq, gt) = (w == Ordering::Less, w == Ordering::Equal, w == Ordering::Greater);
        let oi = |o: Ordering| -> u128 {
            match o {
                Ordering::Less => 0,
                Ordering::Equal => 1,
                Ordering::Greater => 2,
            }
        };
        let bits = |v: &[bool]| -> u128 { v.iter().enumerate().fold(0u128, |acc, (i, &b)| acc | (b as u128) << i) };
        let want = oi(w) | oi(w) << 2 | oi(w) << 4 | bits(&[lt, !gt, gt, !lt, eq, !eq, lt, !gt, gt, !lt, eq]) << 8;
        let got = guard(|| {
            oi(pa.c_cmp(pb)) | oi(Ord::cmp(&pa, &pb)) << 2 | pa.partial_cmp(&pb).map_or(3, oi) << 4
                | bits(&[pa < pb, pa <= pb, pa > pb, pa >= pb, pa == pb, pa != pb, pa.c_lt(pb), pa.c_le(pb), pa.c_gt(pb), pa.c_ge(pb), pa.c_eq(pb)]) << 8
        });
        Out::cmp(got, want, !eq).ops(14)
    }));
    let usp = if n <= 16 { Space::all(n) } else { Space::list32(alphabet(n, es, true), format!("A({},{},rich)", n, es)) };
    v.push(CellDef::new("C10", format!("{}/neg_is", T::name()), usp, move |k| {
        let a = k as u32;
        let d = o::decode(n, es, a);
        let negw = d.map_or(o::nar(n), |x| o::round(n, es, x.negate()));
        let p = T::fb(a);
        let want = ((negw as u128) << sh::<T>()) | (d.is_none() as u128) << 40 | (d.map_or(false, |x| x.is_zero()) as u128) << 41 | 1 << 42;
        let got = guard(|| ((-p).tbr() as u128) | (p.is_nar() as u128) << 40 | (p.is_zero() as u128) << 41 | ((-(-p) == p) as u128) << 42);
        Out::cmp(got, want, true).ops(5)
    }));
    v
}

// -------------------------------------------------------------------------------------------------
// C14 conversions
// -------------------------------------------------------------------------------------------------

fn pair_eq<A: PartialEq + Copy>(x: (A, A), f: impl Fn(A) -> u32) -> u128 {
    let (a, b) = (f(x.0), f(x.1));
    if a == b {
        a as u128
    } else {
        (a as u128) | (b as u128) << 32 | 1 << 100
    }
}

pub fn c14<T: Px>(thorough: bool) -> Vec<CellDef> {
    use crate::fx::Fx;
    let mut v = vec![];
    let (n, es) = (T::N, T::ES);
    let s = sh::<T>();
    // from the fixed-width types
    v.push(CellDef::new("C14", format!("{}/from_p8e0", T::name()), Space::all(8), move |k| {
        let (want, nt) = refs::conv(8, 0, n, es, k as u32);
        Out::cmp(guard(|| pair_eq(T::from_p8(P8E0::fb(k as u32)), |p| p.tbr())), (want as u128) << s, nt).ops(2)
    }));
    v.push(CellDef::new("C14", format!("{}/from_p16e1", T::name()), Space::all(16), move |k| {
        let (want, nt) = refs::conv(16, 1, n, es, k as u32);
        Out::cmp(guard(|| pair_eq(T::from_p16(P16E1::fb(k as u32)), |p| p.tbr())), (want as u128) << s, nt).ops(2)
    }));
    {
        let mut l = alphabet(32, 2, true);
        let low = if thorough { 9 } else { 16 };
        l.extend((0..lattice_len(32, low)).map(|i| lattice_key(32, low, i)));
        l.sort();
        l.dedup();
        v.push(CellDef::new("C14", format!("{}/from_p32e2", T::name()), Space::list32(l, format!("A(32,2,rich) + lattice(top {} bits x low menu)", 32 - low)), move |k| {
            let (want, nt) = refs::conv(32, 2, n, es, k as u32);
            Out::cmp(guard(|| pair_eq(T::from_p32(P32E2::from_bits(k as u32)), |p| p.tbr())), (want as u128) << s, nt).ops(2)
        }));
    }
    // to the fixed-width types, floats and integers
    for (sfx, sp) in unary_sp::<T>(thorough) {
        v.push(CellDef::new("C14", format!("{}/to_p8_p16_p32{}", T::name(), sfx), sp, move |k| {
            let a = k as u32;
            let want = (refs::conv(n, es, 8, 0, a).0 as u128) | (refs::conv(n, es, 16, 1, a).0 as u128) << 16 | (refs::conv(n, es, 32, 2, a).0 as u128) << 32;
            let p = T::fb(a);
            let got = guard(|| {
                let x = pair_eq(p.to_p8(), |q| q.tb());
                let y = pair_eq(p.to_p16(), |q| q.tb());
                let z = pair_eq(p.to_p32(), |q| q.tb());
                if (x | y | z) >> 100 != 0 {
                    1u128 << 100 | x
                } else {
                    x | y << 16 | z << 32
                }
            });
            Out::cmp(got, want, true).ops(6)
        }));
    }
    for (sfx, sp) in unary_sp::<T>(thorough) {
        v.push(CellDef::new("C14", format!("{}/to_f64_f32{}", T::name(), sfx), sp, move |k| {
            let a = k as u32;
            let p = T::fb(a);
            let d = o::decode(n, es, a);
            let want = match d {
                None => 0x7ff8_0000_0000_0000u128 | (0x7fc0_0000u128) << 64,
                Some(x) => (o::to_f64_bits_exact(x).expect("fits f64") as u128) | (o::to_f32_rne_bits(x) as u128) << 64,
            };
            let got = guard(|| {
                let (f, g) = (p.to_f64(), p.f64_from());
                let (f3, g3) = (p.to_f32(), p.f32_from());
                let fb = if f.is_nan() { 0x7ff8_0000_0000_0000 } else { f.to_bits() };
                let gb = if g.is_nan() { 0x7ff8_0000_0000_0000 } else { g.to_bits() };
                let f3b = if f3.is_nan() { 0x7fc0_0000 } else { f3.to_bits() };
                let g3b = if g3.is_nan() { 0x7fc0_0000 } else { g3.to_bits() };
                if fb == gb && f3b == g3b {
                    (fb as u128) | (f3b as u128) << 64
                } else {
                    (fb as u128) ^ 1 << 127
                }
            });
            Out::cmp(got, want, true).ops(4)
        }));
    }
    for (which, name) in ["to_i32", "to_u32", "to_i64", "to_u64"].iter().enumerate() {
        for (sfx, sp) in unary_sp::<T>(thorough) {
            v.push(CellDef::new("C14", format!("{}/{}{}", T::name(), name, sfx), sp, move |k| {
                let a = k as u32;
                let p = T::fb(a);
                let (lo, hi): (i128, i128) = match which {
                    0 => (i32::MIN as i128, i32::MAX as i128),
                    1 => (0, u32::MAX as i128),
                    2 => (i64::MIN as i128, i64::MAX as i128),
                    _ => (0, u64::MAX as i128),
                };
                let Some(w) = refs::to_int(n, es, a, lo, hi) else { return Out::skip() };
                let x = o::decode(n, es, a).unwrap();
                let nt = !o::is_int(x) || w == lo || w == hi;
                let got = guard(|| {
                    let (g, h): (i128, i128) = match which {
                        0 => (p.to_i32() as i128, p.i32_from() as i128),
                        1 => (p.to_u32() as i128, p.u32_from() as i128),
                        2 => (p.to_i64() as i128, p.i64_from() as i128),
                        _ => (p.to_u64() as i128, p.u64_from() as i128),
                    };
                    if g == h {
                        enc_i(g)
                    } else {
                        0xdead_beef_0000_0000_0000_0000_0000_0000
                    }
                });
                Out::cmp(got, enc_i(w), nt).ops(2)
            }));
        }
    }
    // from floats: structured doubles, boundaries of every target value, f32 lattice
    let f64case = move |x: f64| -> Out {
        let (want, nt) = refs::from_f64(n, es, x);
        let got = guard(|| {
            let (a, b) = (T::from_f64(x).tbr(), T::into_f64(x).tbr());
            if a == b {
                a as u128
            } else {
                (a as u128) | (b as u128) << 32 | 1 << 100
            }
        });
        Out::cmp(got, (want as u128) << s, nt).ops(2)
    };
    {
        let mans = f64_mantissas();
        let mans = if thorough { mans } else { mans.into_iter().step_by(5).collect::<Vec<_>>() };
        let nm = mans.len() as u64;
        v.push(CellDef::new(
            "C14",
            format!("{}/from_f64#F64S", T::name()),
            Space::func(2 * 2048 * nm, format!("sign x all 2048 exponent fields x {} structured mantissas", nm), move |i| {
                let mi = (i % nm) as usize;
                let e = (i / nm) % 2048;
                let sg = i / nm / 2048;
                ((sg << 63) | (e << 52) | mans[mi]) as u128
            }),
            move |k| f64case(f64::from_bits(k as u64)),
        ));
    }
    {
        // "cut x tail" doubles (see C02): every exponent field the width can see x every 4th cut position (every one in the
        // thorough tier) x 3 kept prefixes x every 5-bit tail below the cut x low fill
        let lim = (n as u64 - 2) * (1 << es) + 8;
        let exps: Vec<u64> = (1023 - lim..=1023 + lim).step_by(if thorough { 1 } else { 3 }).chain([0u64, 1, 2046]).collect();
        let ne = exps.len() as u64;
        let cuts: Vec<u64> = if thorough { (0..52).collect() } else { (0..52).filter(|c| c % 4 == (n as u64) % 4 || *c > 44).collect() };
        let ncut = cuts.len() as u64;
        v.push(CellDef::new(
            "C14",
            format!("{}/from_f64#cuts", T::name()),
            Space::func(2 * ne * ncut * 3 * 32 * 2, format!("sign x {} exponent fields x {} cut positions x 3 kept prefixes x every 5-bit tail below the cut x low fill", ne, ncut), move |i| {
                let mut r = i;
                let fill = r & 1;
                r >>= 1;
                let tail = r & 31;
                r >>= 5;
                let pi = r % 3;
                r /= 3;
                let c = cuts[(r % ncut) as usize];
                r /= ncut;
                let e = exps[(r % ne) as usize];
                let sgn = r / ne;
                let below = 52 - c;
                let tb = below.min(5);
                let rest = below - tb;
                let full_c = if c == 0 { 0 } else { (1u64 << c) - 1 };
                let prefix = match pi { 0 => 0, 1 => full_c, _ => 0x1234_5678_9abc_def1 & full_c };
                let fillv = if fill == 1 && rest > 0 { (1u64 << rest) - 1 } else { 0 };
                let man = (prefix << below) | ((tail & ((1 << tb) - 1)) << rest) | fillv;
                ((sgn << 63) | (e << 52) | man) as u128
            }),
            move |k| f64case(f64::from_bits(k as u64)),
        ));
    }
    {
        let targets: Space = if n <= 16 { Space::all(n) } else { Space::list32(alphabet(n, es, true), format!("A({},{},rich)", n, es)) };
        let tdesc = targets.desc.clone();
        let tkey = targets.key;
        v.push(CellDef::new(
            "C14",
            format!("{}/from_f64#F64T", T::name()),
            Space::func(targets.len * 6, format!("for every target p in {tdesc}: mid(p,p+) and its f64 neighbours, p and its f64 neighbours"), move |i| {
                let p = tkey(i / 6) as u32;
                let j = i % 6;
                let val = if j < 3 { o::decode64(n + 1, es, ((p as u64) << 1) | 1) } else { o::decode(n, es, p) };
                let x = match val.and_then(o::to_f64_bits_exact) {
                    Some(b) => f64::from_bits(b),
                    None => return 0u128,
                };
                (match j % 3 {
                    0 => x,
                    1 => f64_next_up(x),
                    _ => f64_next_down(x),
                })
                .to_bits() as u128
            }),
            move |k| f64case(f64::from_bits(k as u64)),
        ));
    }
    {
        // exact tie + one lone bit at every distance below the guard bit, at every scale (f64 and integer sources)
        let lim = (n as i32 - 2) * (1 << es) + 2;
        let mut l64: Vec<u128> = vec![];
        for (m, e) in tie_bit_values(n, es, 52, -lim..=lim) {
            for neg in [false, true] {
                if let Some(b) = o::to_f64_bits_exact(o::Ex { neg, m, e, sticky: false }) {
                    l64.push(b as u128);
                }
            }
        }
        l64.sort();
        l64.dedup();
        v.push(CellDef::new("C14", format!("{}/from_f64#tiebit", T::name()), Space::list(l64, "exact ties of the target and tie + one lone bit d = 1..52 places below the guard bit, every scale, both signs"), move |k| f64case(f64::from_bits(k as u64))));
        let mut li: Vec<u128> = vec![];
        for (m, e) in tie_bit_values(n, es, 62, 1..=63) {
            if e >= 0 && (128 - m.leading_zeros() as i32 + e) <= 64 {
                li.push(m << e as u32);
            }
        }
        li.sort();
        li.dedup();
        let li2: Vec<u128> = li.iter().copied().filter(|&x| x < (1u128 << 63)).flat_map(|x| [x, (x as i64).wrapping_neg() as u64 as u128]).collect();
        v.push(CellDef::new("C14", format!("{}/from_u64#tiebit", T::name()), Space::list(li, "integers that are an exact tie of the target or tie + one lone bit, every bit length"), move |k| {
            let x = k as u64;
            let (want, nt) = refs::from_int(n, es, x as i128);
            let got = guard(|| {
                let (a, b) = (T::from_u64(x).unwrap().tbr(), T::into_u64(x).unwrap().tbr());
                let c = if x <= u32::MAX as u64 { T::from_u32(x as u32).map_or(a, |p| p.tbr()) } else { a };
                if a == b && b == c { a as u128 } else { (a as u128) | (b as u128) << 32 | 1 << 100 }
            });
            Out::cmp(got, (want as u128) << s, nt).ops(3)
        }));
        if T::from_i64(0).is_some() {
            v.push(CellDef::new("C14", format!("{}/from_i64#tiebit", T::name()), Space::list(li2, "the same family as i64, both signs"), move |k| {
                let x = k as u64 as i64;
                let (want, nt) = refs::from_int(n, es, x as i128);
                let got = guard(|| {
                    let (a, b) = (T::from_i64(x).unwrap().tbr(), T::into_i64(x).unwrap().tbr());
                    if a == b { a as u128 } else { (a as u128) | (b as u128) << 32 | 1 << 100 }
                });
                Out::cmp(got, (want as u128) << s, nt).ops(2)
            }));
        }
    }
    {
        let low = if thorough { 7 } else { 14 };
        v.push(CellDef::new(
            "C14",
            format!("{}/from_f32", T::name()),
            Space::func(lattice_len(32, low), format!("f32 lattice: every sign/exponent/top mantissa bits (top {} bits) x low menu", 32 - low), move |i| lattice_key(32, low, i) as u128),
            move |k| {
                let x = f32::from_bits(k as u32);
                let (want, nt) = refs::from_f64(n, es, x as f64);
                let got = guard(|| {
                    let (a, b) = (T::from_f32(x).tbr(), T::into_f32(x).tbr());
                    if a == b {
                        a as u128
                    } else {
                        (a as u128) | (b as u128) << 32 | 1 << 100
                    }
                });
                Out::cmp(got, (want as u128) << s, nt).ops(2)
            },
        ));
    }
    // from integers (stubs whose whole body is todo!() are outside the property: reported by from_* -> None)
    let ints32 = |t: bool| -> Vec<(String, Space)> {
        let low = if t { 9 } else { 16 };
        vec![
            (String::new(), Space::func(lattice_len(32, low), format!("lattice(top {} bits x low menu)", 32 - low), move |i| lattice_key(32, low, i) as u128)),
            ("#small".into(), Space::func(140_001, "-70000..=70000", |i| (i as i64 - 70_000) as i32 as u32 as u128)),
        ]
    };
    for (sfx, sp) in ints32(thorough) {
        v.push(CellDef::new("C14", format!("{}/from_i32{}", T::name(), sfx), sp, move |k| {
            let x = k as u32 as i32;
            let (want, nt) = refs::from_int(n, es, x as i128);
            let got = guard(|| {
                let (a, b) = (T::from_i32(x).unwrap().tbr(), T::into_i32(x).unwrap().tbr());
                if a == b { a as u128 } else { (a as u128) | (b as u128) << 32 | 1 << 100 }
            });
            Out::cmp(got, (want as u128) << s, nt).ops(2)
        }));
    }
    if T::from_u32(0).is_some() {
        for (sfx, sp) in ints32(thorough) {
            v.push(CellDef::new("C14", format!("{}/from_u32{}", T::name(), sfx), sp, move |k| {
                let x = k as u32;
                let (want, nt) = refs::from_int(n, es, x as i128);
                let got = guard(|| {
                    let (a, b) = (T::from_u32(x).unwrap().tbr(), T::into_u32(x).unwrap().tbr());
                    if a == b { a as u128 } else { (a as u128) | (b as u128) << 32 | 1 << 100 }
                });
                Out::cmp(got, (want as u128) << s, nt).ops(2)
            }));
        }
    }
    let hb = if thorough { 18 } else { 12 };
    let ints64 = move || -> Vec<(String, Space)> {
        let ext: Vec<u128> = {
            let mut l = vec![];
            for d in 0..300u64 {
                for base in [0u64, u64::MAX, i64::MAX as u64, i64::MIN as u64, u32::MAX as u64, 1 << 32, 1 << 53, 1 << 62, 1 << 63] {
                    l.push(base.wrapping_add(d) as u128);
                    l.push(base.wrapping_sub(d) as u128);
                }
            }
            l.sort();
            l.dedup();
            l
        };
        vec![
            (String::new(), Space::func(u64_lattice_len(hb), format!("every {hb}-bit head at every shift 0..63 x low fill"), move |i| u64_lattice(hb, i) as u128)),
            ("#ext".into(), Space::list(ext, "+-300 around 0, 2^32, 2^53, 2^62, 2^63, 2^64")),
        ]
    };
    if T::from_i64(0).is_some() {
        for (sfx, sp) in ints64() {
            v.push(CellDef::new("C14", format!("{}/from_i64{}", T::name(), sfx), sp, move |k| {
                let x = k as u64 as i64;
                let (want, nt) = refs::from_int(n, es, x as i128);
                let got = guard(|| {
                    let (a, b) = (T::from_i64(x).unwrap().tbr(), T::into_i64(x).unwrap().tbr());
                    if a == b { a as u128 } else { (a as u128) | (b as u128) << 32 | 1 << 100 }
                });
                Out::cmp(got, (want as u128) << s, nt).ops(2)
            }));
        }
    }
    for (sfx, sp) in ints64() {
        v.push(CellDef::new("C14", format!("{}/from_u64{}", T::name(), sfx), sp, move |k| {
            let x = k as u64;
            let (want, nt) = refs::from_int(n, es, x as i128);
            let got = guard(|| {
                let (a, b) = (T::from_u64(x).unwrap().tbr(), T::into_u64(x).unwrap().tbr());
                if a == b { a as u128 } else { (a as u128) | (b as u128) << 32 | 1 << 100 }
            });
            Out::cmp(got, (want as u128) << s, nt).ops(2)
        }));
    }
    v
}

/// PxE2<N>::from(&Q32E2): the quire value rounded once to N bits
pub fn c14_quire<T: Px>(states: std::sync::Arc<Vec<[u64; 8]>>) -> Vec<CellDef> {
    let (n, es) = (T::N, T::ES);
    let s = sh::<T>();
    if T::from_q32(&Q32E2::init()).is_none() {
        return vec![];
    }
    let len = states.len() as u64;
    vec![CellDef::new("C14", format!("{}/from_q32e2", T::name()), Space::func(len, format!("{} quire states (0, +-2^j and neighbours, limb straddles, range ends, NaR)", len), |i| i as u128), move |k| {
        let be = states[k as usize];
        let w = o::W512::from_be(be);
        let nar = be[0] == 0x8000_0000_0000_0000 && be[1..].iter().all(|&x| x == 0);
        let (want, nt) = if nar { (o::nar(n), true) } else { o::round_ex(n, es, w.to_ex(240)) };
        let q = Q32E2::from_bits(be);
        Out::cmp(guard(|| T::from_q32(&q).unwrap().tbr() as u128), (want as u128) << s, nt)
    })]
}

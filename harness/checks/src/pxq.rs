//! PxE2<N> as a client of Q32E2: `Q32E2::from(p)`, `q += (a, b)`, `q += a`, the tuple / array spellings and the
//! read-out `PxE2::<N>::from(&q)`. The quire image is compared with the exact 512-bit integer model (C04), the
//! posit -> quire -> posit round trip with the identity (C12), and the composite spellings with the elementary ones (C17).
use crate::px::{unary_sp, Px};
use softposit::{PxE2, Q32E2};
use vp_oracle as o;
use vp_oracle::W512;
use vpcore::alpha::alphabet;
use vpcore::{guard, k2, k3, CellDef, Out, Space};

fn thin(v: &[u32], target: usize) -> Vec<u32> {
    let step = v.len() / target + 1;
    let mut r: Vec<u32> = v.iter().copied().step_by(step).collect();
    if let Some(l) = v.last() {
        r.push(*l);
    }
    r.sort();
    r.dedup();
    r
}

/// exact a*b in quire units (2^-240); None = NaR operand
fn prod(n: u32, a: u32, b: u32) -> Option<W512> {
    let (Some(x), Some(y)) = (o::decode(n, 2, a), o::decode(n, 2, b)) else { return None };
    let p = o::mul(x, y);
    if p.is_zero() {
        return Some(W512::ZERO);
    }
    let w = W512::from_shifted(p.m, (p.e + 240) as u32).expect("fits");
    Some(if p.neg { w.neg() } else { w })
}

fn nar_image() -> W512 {
    W512([0, 0, 0, 0, 0, 0, 0, 1u64 << 63])
}

/// start states: 0, +-1.0, a value straddling a limb boundary, a large and a tiny one
fn states() -> Vec<W512> {
    let one = W512::from_shifted(1, 240).unwrap();
    vec![
        W512::ZERO,
        one,
        one.neg(),
        W512::from_shifted(3, 255).unwrap(),
        W512::from_shifted(0x1_0000_0001, 300).unwrap().neg(),
        W512::from_shifted(0xffff_ffff_ffff_ffff, 2).unwrap(),
    ]
}

fn hash_w(w: &W512) -> u64 {
    let mut h = 0xcbf2_9ce4_8422_2325u64;
    for x in w.0 {
        h ^= x;
        h = h.wrapping_mul(0x0000_0100_0000_01B3).rotate_left(23) ^ (h >> 29);
    }
    h
}

pub fn cells<const N: u32>(thorough: bool, want_prop: &str) -> Vec<CellDef>
where
    PxE2<N>: Px,
    softposit::PxE1<N>: Px,
{
    let n = N;
    let sh = 32 - n;
    let fb = move |b: u32| PxE2::<N>::from_bits(b << sh);
    let mut v = vec![];
    if want_prop == "C12" {
        for (sfx, sp) in unary_sp::<PxE2<N>>(thorough) {
            v.push(CellDef::new("C12", format!("PxE2<{n}>/quire_roundtrip{sfx}"), sp, move |k| {
                let a = k as u32;
                let p = fb(a);
                let want_img = match prod(n, a, 1u32 << (n - 2)) {
                    Some(w) => w,
                    None => nar_image(),
                };
                let got = guard(|| {
                    let q = Q32E2::from(p);
                    let back = PxE2::<N>::from(&q).to_bits();
                    let img = W512::from_be(q.to_bits());
                    let back2 = PxE2::<N>::from(q).to_bits();
                    (back as u128) | ((back != back2) as u128) << 40 | (hash_w(&img) as u128) << 64
                });
                Out::cmp(got, ((a << sh) as u128) | (hash_w(&want_img) as u128) << 64, true).ops(3)
            }));
        }
    }
    let al = thin(&alphabet(n, 2, false), if thorough { 160 } else { 60 });
    if want_prop == "C04" {
        let st = states();
        let ns = st.len() as u64;
        let (al1, al2) = (al.clone(), al.clone());
        let na = al.len() as u64;
        v.push(CellDef::new(
            "C04",
            format!("PxE2<{n}>/quire_accumulate"),
            Space::func(ns * na * na * 4, format!("{ns} start states x alphabet^2 ({na} operands) x {{+= (a,b), -= (a,b), += a, -= a}}"), move |i| {
                let op = i & 3;
                let j = i >> 2;
                ((j / (na * na)) as u128) << 72 | (op as u128) << 64 | (al1[((j / na) % na) as usize] as u128) << 32 | al2[(j % na) as usize] as u128
            }),
            move |k| {
                let si = (k >> 72) as usize;
                let op = ((k >> 64) & 3) as u8;
                let (a, b) = k2(k);
                let term = if op < 2 { prod(n, a, b) } else { prod(n, a, 1u32 << (n - 2)) };
                let before = st[si];
                let want = match term {
                    None => nar_image(),
                    Some(t) => {
                        let t = if op & 1 == 1 { t.neg() } else { t };
                        let r = before.add(t);
                        // 512-bit overflow cannot happen from these states; NaR image excluded
                        if r == nar_image() {
                            return Out::skip();
                        }
                        r
                    }
                };
                let (pa, pb) = (fb(a), fb(b));
                let got = guard(|| {
                    let mut q = Q32E2::from_bits(before.to_be());
                    match op {
                        0 => q += (pa, pb),
                        1 => q -= (pa, pb),
                        2 => q += pa,
                        _ => q -= pa,
                    }
                    let img = W512::from_be(q.to_bits());
                    (hash_w(&img) as u128) | (q.is_nar() as u128) << 64 | (q.is_zero() as u128) << 65
                });
                let wz = want.is_zero();
                Out::cmp(got, (hash_w(&want) as u128) | ((want == nar_image()) as u128) << 64 | (wz as u128) << 65, true).ops(2)
            },
        ));
    }
    if want_prop == "C17" {
        // the to_<type>() forwarders of the generic type
        for (sfx, sp) in unary_sp::<PxE2<N>>(thorough) {
            v.push(CellDef::new("C17", format!("PxE2<{n}>/to_fixed_spellings{sfx}"), sp, move |k| {
                let p = fb(k as u32);
                let got = guard(|| {
                    use softposit::{P16E1, P32E2, P8E0};
                    ((p.to_p8e0().to_bits() != P8E0::from_pxe2(p).to_bits()) as u128)
                        | ((p.to_p16e1().to_bits() != P16E1::from_pxe2(p).to_bits()) as u128) << 1
                        | ((p.to_p32e2().to_bits() != P32E2::from_pxe2(p).to_bits()) as u128) << 2
                        | ((P8E0::from(p).to_bits() != P8E0::from_pxe2(p).to_bits()) as u128) << 3
                        | ((P16E1::from(p).to_bits() != P16E1::from_pxe2(p).to_bits()) as u128) << 4
                        | ((P32E2::from(p).to_bits() != P32E2::from_pxe2(p).to_bits()) as u128) << 5
                });
                Out::cmp(got, 0, true).ops(6)
            }));
        }
        for (sfx, sp) in unary_sp::<softposit::PxE1<N>>(thorough) {
            v.push(CellDef::new("C17", format!("PxE1<{n}>/to_fixed_spellings{sfx}"), sp, move |k| {
                let p = softposit::PxE1::<N>::from_bits((k as u32) << sh);
                let got = guard(|| {
                    use softposit::{P16E1, P32E2, P8E0};
                    ((p.to_p8e0().to_bits() != P8E0::from_pxe1(p).to_bits()) as u128)
                        | ((p.to_p16e1().to_bits() != P16E1::from_pxe1(p).to_bits()) as u128) << 1
                        | ((p.to_p32e2().to_bits() != P32E2::from_pxe1(p).to_bits()) as u128) << 2
                        | ((P8E0::from(p).to_bits() != P8E0::from_pxe1(p).to_bits()) as u128) << 3
                        | ((P16E1::from(p).to_bits() != P16E1::from_pxe1(p).to_bits()) as u128) << 4
                        | ((P32E2::from(p).to_bits() != P32E2::from_pxe1(p).to_bits()) as u128) << 5
                });
                Out::cmp(got, 0, true).ops(6)
            }));
        }
        let al3 = thin(&al, if thorough { 40 } else { 24 });
        v.push(CellDef::new("C17", format!("PxE2<{n}>/quire_spellings"), Space::prod3(al3.clone(), al3.clone(), al3, "thinned alphabet^3: tuple and array spellings against elementary += / -="), move |k| {
            let (a, b, c) = k3(k);
            let (pa, pb, pc) = (fb(a), fb(b), fb(c));
            let got = guard(|| {
                let img = |f: &dyn Fn(&mut Q32E2)| -> [u64; 8] {
                    let mut q = Q32E2::init();
                    q += (pc, pc); // a non-trivial start
                    f(&mut q);
                    q.to_bits()
                };
                let mut bad = 0u128;
                let mut bit = 0;
                let mut chk = |x: [u64; 8], y: [u64; 8]| {
                    if x != y {
                        bad |= 1 << bit;
                    }
                    bit += 1;
                };
                let two = img(&|q| { *q += (pa, pb); *q += (pa, pc); });
                chk(img(&|q| *q += (pa, (pb, pc))), two);
                chk(img(&|q| *q += (pa, [pb, pc])), two);
                let three = img(&|q| { *q += (pa, pb); *q += (pa, pc); *q += (pa, pa); });
                chk(img(&|q| *q += (pa, (pb, pc, pa))), three);
                chk(img(&|q| *q += (pa, [pb, pc, pa])), three);
                chk(img(&|q| *q += (pa, [pb])), img(&|q| *q += (pa, pb)));
                let four = img(&|q| { *q += (pa, pc); *q += (pa, pa); *q += (pb, pc); *q += (pb, pa); });
                chk(img(&|q| *q += ((pa, pb), (pc, pa))), four);
                chk(img(&|q| *q += (pa, [pb, pc, pa, pb])), img(&|q| { *q += (pa, pb); *q += (pa, pc); *q += (pa, pa); *q += (pa, pb); }));
                let m2 = img(&|q| { *q -= (pa, pb); *q -= (pa, pc); });
                chk(img(&|q| *q -= (pa, (pb, pc))), m2);
                chk(img(&|q| *q -= (pa, [pb, pc])), m2);
                let m4 = img(&|q| { *q -= (pa, pc); *q -= (pa, pa); *q -= (pb, pc); *q -= (pb, pa); });
                chk(img(&|q| *q -= ((pa, pb), (pc, pa))), m4);
                // a single posit is the product with one
                chk(img(&|q| *q += pa), img(&|q| *q += (pa, PxE2::<N>::from_bits(0x4000_0000))));
                chk(img(&|q| *q -= pa), img(&|q| *q -= (pa, PxE2::<N>::from_bits(0x4000_0000))));
                bad
            });
            Out::cmp(got, 0, true).ops(40)
        }));
    }
    v
}

pub mod fx;
pub mod fixed;
pub mod elem;
pub mod rng;

pub mod fx;
pub mod fixed;
pub mod elem;
pub mod rng;
pub mod px;
pub mod pxx;
pub mod spell;
pub mod total;

pub mod fx;
pub mod fixed;

//! Cells for the fixed-width types: C01, C02, C03, C05, C06, C07, C08, C09, C10.
use crate::fx::Fx;
use softposit::{P16E1, P32E2, P8E0};
use std::cmp::Ordering;
use std::num::FpCategory;
use vp_oracle as o;
use vpcore::alpha::*;
use vpcore::refs;
use vpcore::{guard, k2, k3, CellDef, Out, Space};

fn thin(v: &[u32], step: usize) -> Vec<u32> {
    let mut r: Vec<u32> = v.iter().copied().step_by(step).collect();
    if let Some(l) = v.last() {
        r.push(*l);
    }
    r.sort();
    r.dedup();
    r
}

fn all_vec(bits: u32) -> Vec<u32> {
    (0..(1u64 << bits)).map(|x| x as u32).collect()
}

/// C16's quick tier re-runs every cell in two build profiles; it sets VERIF_LIGHT=1 so that the quick spaces
/// of P32E2 fall back to the sparser lattices (the value checks themselves use the dense ones)
pub fn light() -> bool {
    std::env::var("VERIF_LIGHT").map(|v| v == "1").unwrap_or(false)
}

/// unary spaces of a type
pub fn unary<T: Fx>(thorough: bool) -> Vec<(String, Space)> {
    unary_low::<T>(thorough, 12)
}

/// unary spaces of the totality cells (C16): the thorough tier uses the top-27-bit lattice + alphabet + cut x tail
/// alphabet instead of all 2^32 patterns (some forty functions x two build profiles)
pub fn unary_total<T: Fx>(thorough: bool) -> Vec<(String, Space)> {
    if T::N == 32 && thorough {
        let mut v = unary_low::<T>(false, 5);
        v.push(("#cuts".into(), Space::list32(vpcore::alpha::cut_tail_alphabet(32, 2, 6), "every scale x cut position x 5 kept prefixes x every 6-bit tail below the cut")));
        v
    } else {
        unary::<T>(thorough)
    }
}

/// unary spaces with a chosen lattice density for the quick tier of P32E2 (`low` = number of low bits taken
/// from the menu {0, 1, ones, msb}; low = 0 means the complete 2^32 space also in the quick tier)
pub fn unary_low<T: Fx>(thorough: bool, low: u32) -> Vec<(String, Space)> {
    let low = if light() && !thorough { 12 } else { low };
    match T::N {
        8 => vec![(String::new(), Space::all(8))],
        16 => vec![(String::new(), Space::all(16))],
        _ => {
            if thorough || low == 0 {
                vec![(String::new(), Space::all(32))]
            } else {
                vec![
                    (String::new(), Space::func(lattice_len(32, low), format!("lattice: every value of the top {} bits x low-{}-bit menu {{0, 1, ones, msb}}", 32 - low, low), move |i| lattice_key(32, low, i) as u128)),
                    ("#A".into(), Space::list32(alphabet(32, 2, true), "A(32,2,rich)")),
                ]
            }
        }
    }
}

pub fn pairs<T: Fx>(thorough: bool) -> Vec<(String, Space)> {
    match T::N {
        8 => vec![(String::new(), Space::all2(8))],
        16 => {
            if thorough {
                vec![(String::new(), Space::all2(16))]
            } else {
                let a = alphabet(16, 1, false);
                vec![
                    (String::new(), Space::prod2(a.clone(), all_vec(16), "A(16,1,coarse) x ALL(16)")),
                    ("#r".into(), Space::prod2(all_vec(16), a, "ALL(16) x A(16,1,coarse)")),
                    ("#A".into(), { let r = alphabet(16, 1, true); Space::prod2(r.clone(), r, "A(16,1,rich)^2") }),
                ]
            }
        }
        _ => {
            if thorough {
                let r = alphabet(32, 2, true);
                let c = alphabet(32, 2, false);
                let l: Vec<u32> = (0..lattice_len(32, 14)).map(|i| lattice_key(32, 14, i)).collect();
                vec![
                    (String::new(), Space::prod2(r.clone(), r, "A(32,2,rich)^2")),
                    ("#L".into(), Space::prod2(thin(&c, 2), l.clone(), "thin2(A(32,2,coarse)) x lattice(top 18 bits x low menu)")),
                    ("#Lr".into(), Space::prod2(l, thin(&c, 2), "lattice(top 18 bits x low menu) x thin2(A(32,2,coarse))")),
                ]
            } else {
                let c = alphabet(32, 2, false);
                vec![(String::new(), Space::prod2(c.clone(), c, "A(32,2,coarse)^2"))]
            }
        }
    }
}

pub fn triples<T: Fx>(thorough: bool) -> Vec<(String, Space)> {
    match T::N {
        8 => vec![(String::new(), Space::all3(8))],
        16 => {
            let c = alphabet(16, 1, false);
            if thorough {
                let r = alphabet(16, 1, true);
                vec![
                    (String::new(), Space::prod3(c.clone(), c.clone(), c.clone(), "A(16,1,coarse)^3")),
                    ("#R".into(), Space::prod3(r.clone(), thin(&c, 3), r, "A(16,1,rich) x thin3(A(16,1,coarse)) x A(16,1,rich)")),
                ]
            } else {
                vec![(String::new(), Space::prod3(c.clone(), thin(&c, 4), c, "A(16,1,coarse) x thin4(A(16,1,coarse)) x A(16,1,coarse)"))]
            }
        }
        _ => {
            let c = alphabet(32, 2, false);
            if thorough {
                vec![(String::new(), Space::prod3(c.clone(), c.clone(), c, "A(32,2,coarse)^3"))]
            } else {
                vec![(String::new(), Space::prod3(c.clone(), thin(&c, 32), c, "A(32,2,coarse) x thin32(A(32,2,coarse)) x A(32,2,coarse)"))]
            }
        }
    }
}

// -------------------------------------------------------------------------------------------------
// C01
// -------------------------------------------------------------------------------------------------

fn bin_case<T: Fx>(op: u8, key: u128) -> Out {
    let (a, b) = k2(key);
    let (pa, pb) = (T::fb(a), T::fb(b));
    let (want, nt) = refs::bin(T::N, T::ES, op, a, b);
    let got = guard(|| {
        let (x, y) = match op {
            0 => (pa + pb, pa.c_add(pb)),
            1 => (pa - pb, pa.c_sub(pb)),
            2 => (pa * pb, pa.c_mul(pb)),
            _ => (pa / pb, pa.c_div(pb)),
        };
        if x.tb() == y.tb() {
            x.tb() as u128
        } else {
            (x.tb() as u128) | (y.tb() as u128) << 32 | 1 << 100
        }
    });
    Out::cmp(got, want as u128, nt).ops(2)
}

const OPS: [&str; 4] = ["add", "sub", "mul", "div"];

/// forced collisions for P32E2: operands solved so that a op b is exactly the encoding midpoint of two
/// adjacent posits, plus the four one-encoding neighbours of that operand pair.
fn ties32(op: u8, al: &[u32]) -> Vec<u128> {
    let repr = |v: o::Ex| -> Option<u32> {
        if v.sticky || v.is_zero() {
            return None;
        }
        let v = o::shrink(v);
        if v.sticky || v.m >= (1u128 << 33) {
            return None;
        }
        let (p, inex) = o::round_ex(32, 2, v);
        if inex {
            None
        } else {
            Some(p)
        }
    };
    let mut out: Vec<u128> = vec![];
    for &a in al {
        if a == 0 || a == 0x8000_0000 {
            continue;
        }
        let xa = o::decode(32, 2, a).unwrap();
        for &p in al {
            if p == 0x8000_0000 || p == 0x7fff_ffff || p == 0xffff_ffff {
                continue;
            }
            let Some(mid) = o::decode64(33, 2, ((p as u64) << 1) | 1) else { continue };
            let cand: Option<(u32, u32)> = match op {
                0 => repr(o::sub(mid, xa)).map(|b| (a, b)),
                1 => repr(o::sub(xa, mid)).map(|b| (a, b)),
                2 => repr(o::div(mid, xa)).map(|b| (a, b)),
                _ => repr(o::mul(mid, xa)).map(|num| (num, a)),
            };
            let Some((x, y)) = cand else { continue };
            for (dx, dy) in [(0i32, 0i32), (0, 1), (0, -1), (1, 0), (-1, 0)] {
                let (x, y) = (x.wrapping_add(dx as u32), y.wrapping_add(dy as u32));
                out.push((x as u128) << 32 | y as u128);
            }
        }
    }
    out.sort();
    out.dedup();
    out
}

pub fn c01<T: Fx>(thorough: bool) -> Vec<CellDef> {
    let mut v = vec![];
    for op in 0..4u8 {
        for (sfx, sp) in pairs::<T>(thorough) {
            v.push(CellDef::new("C01", format!("{}/{}{}", T::NAME, OPS[op as usize], sfx), sp, move |k| bin_case::<T>(op, k)));
        }
        if T::N == 32 || (T::N == 16 && !thorough) {
            // the other operand solved so that the exact result sits on / next to a rounding boundary (see deep.rs)
            let al = std::sync::Arc::new(crate::deep::operand_list(T::N, T::ES, if thorough { 300 } else { 60 }));
            v.push(CellDef::new("C01", format!("{}/{}#solve", T::NAME, OPS[op as usize]), crate::deep::bin_solve_space(T::N, T::ES, op, al, if thorough { 5 } else { 3 }, "fraction shapes + unstructured fractions at a menu of scales"), move |k| bin_case::<T>(op, k)));
        }
        if T::N == 32 && op == 2 {
            // products that are themselves unusually close to a rounding boundary (complete scan, stratified; see deep.rs)
            let mut l: Vec<u128> = vec![];
            for (a, b) in crate::deep::near_tie_pairs(32, 2, if thorough { 800 } else { 300 }, 6, if thorough { 100 } else { 24 }) {
                l.push((a as u128) << 32 | b as u128);
                l.push((b as u128) << 32 | a as u128);
                l.push((a.wrapping_neg() as u128) << 32 | b as u128);
            }
            l.sort();
            l.dedup();
            v.push(CellDef::new("C01", "P32E2/mul#neartie", Space::list(l, "operand pairs (shapes + unstructured fractions at a menu of scales, complete cross product) whose exact product starts, below the guard bit, with a run of >= 6 zeros or ones; stratified by product scale x run length"), move |k| bin_case::<T>(op, k)));
        }
        if T::N == 16 && op == 2 && !thorough {
            // (the thorough tier enumerates all 2^32 pairs anyway)
            let mut l: Vec<u128> = vec![];
            for (a, b) in crate::deep::pairs16(12) {
                l.push((a as u128) << 32 | b as u128);
                l.push((b as u128) << 32 | a as u128);
                l.push(((a.wrapping_neg() & 0xffff) as u128) << 32 | b as u128);
            }
            l.sort();
            l.dedup();
            v.push(CellDef::new("C01", "P16E1/mul#deep", Space::list(l, "every positive pair whose exact product ends in a lone bit below >= 12 zeros or in > 12 ones (complete search), both orders, one negated"), move |k| bin_case::<T>(op, k)));
        }
        if T::N == 32 {
            // shape alphabet: operands whose fractions are runs of ones / single bits at every relative scale
            let ax = crate::deep::alphabet_x(32, 2, thorough);
            if thorough {
                v.push(CellDef::new("C01", format!("P32E2/{}#shapes", OPS[op as usize]), Space::prod2(ax.clone(), ax, "shape alphabet (every scale x runs of ones / single bits / menu, both signs)^2"), move |k| bin_case::<T>(op, k)));
            } else {
                let near = crate::deep::alphabet_x_near_one(32, 2, false);
                v.push(CellDef::new("C01", format!("P32E2/{}#shapes", OPS[op as usize]), Space::prod2(near.clone(), ax.clone(), "shape alphabet members with scale in [-2,2] x whole shape alphabet"), move |k| bin_case::<T>(op, k)));
                v.push(CellDef::new("C01", format!("P32E2/{}#shapes_r", OPS[op as usize]), Space::prod2(ax, near, "whole shape alphabet x members with scale in [-2,2]"), move |k| bin_case::<T>(op, k)));
            }
            if op == 2 {
                // products with a sparse / saturated tail (lone lowest bit, long runs of ones): both operand orders
                let z = if thorough { 16 } else { 20 };
                let mut l: Vec<u128> = vec![];
                for (a, b) in crate::deep::pairs32(z, true) {
                    for (x, y) in [(a, b), (b, a), (a.wrapping_neg(), b), (a, b.wrapping_neg())] {
                        l.push((x as u128) << 32 | y as u128);
                    }
                }
                l.sort();
                l.dedup();
                v.push(CellDef::new("C01", "P32E2/mul#deep", Space::list(l, format!("operand pairs whose exact product ends in a lone bit below >= {z} zeros or in > {z} ones, both orders and signs")), move |k| bin_case::<T>(op, k)));
            }
            if op == 2 {
                // modular-inverse collisions: b solved so that the low 28 bits of the exact product are a chosen tail
                let mut l: Vec<u128> = vec![];
                for (a, b) in crate::deep::inverse_pairs(32, 2, if thorough { 1 << 16 } else { 1 << 12 }) {
                    // scale variants: the product carries or not depending on the operands; also try b doubled / halved
                    for (x, y) in [(a, b), (b, a), (a.wrapping_neg(), b), (a, b.wrapping_add(0x0800_0000)), (a.wrapping_sub(0x0800_0000), b)] {
                        l.push((x as u128) << 32 | y as u128);
                    }
                }
                l.sort();
                l.dedup();
                v.push(CellDef::new("C01", "P32E2/mul#inverse", Space::list(l, "a = 1.F (every odd fraction shape + a fixed list of unstructured odd fractions), b solved by modular inverse so that the low 28 bits of the exact product are a chosen tail (tie, tie+-1, 0 1..1, all ones, lone bits, ...); both orders, a sign flip and two exponent variants"), move |k| bin_case::<T>(op, k)));
            }
            if op == 3 {
                // exact and almost exact quotients: a = q*b exactly representable, divided by b, with a displaced by -1, 0, 1 encodings
                let near = crate::deep::alphabet_x_near_one(32, 2, thorough);
                let bs = crate::deep::alphabet_x(32, 2, false);
                let bs = thin(&bs, if thorough { 1 } else { 3 });
                let mut l: Vec<u128> = vec![];
                for &q in &near {
                    let Some(xq) = o::decode(32, 2, q) else { continue };
                    for &b in &bs {
                        let Some(xb) = o::decode(32, 2, b) else { continue };
                        if xb.is_zero() || xq.is_zero() {
                            continue;
                        }
                        let (a, inex) = o::round_ex(32, 2, o::mul(xq, xb));
                        if inex {
                            continue;
                        }
                        for d in [-1i32, 0, 1] {
                            l.push((a.wrapping_add(d as u32) as u128) << 32 | b as u128);
                        }
                    }
                }
                l.sort();
                l.dedup();
                v.push(CellDef::new("C01", "P32E2/div#exact", Space::list(l, "a = q*b exactly representable (q near one with a fraction shape, b in the shape alphabet), a displaced by -1, 0, 1 encodings, divided by b"), move |k| bin_case::<T>(op, k)));
            }
            let al = alphabet(32, 2, thorough);
            let al = if thorough { al } else { thin(&al, 3) };
            let t = ties32(op, &al);
            v.push(CellDef::new(
                "C01",
                format!("P32E2/{}#ties", OPS[op as usize]),
                Space::list(t, "TIES: a in alphabet, b solved so that the exact result is the midpoint of adjacent posits p,p+ (p in alphabet), with the 4 one-encoding neighbours"),
                move |k| bin_case::<T>(op, k),
            ));
        }
    }
    v
}

// -------------------------------------------------------------------------------------------------
// C05
// -------------------------------------------------------------------------------------------------

fn fma_case<T: Fx>(kind: u8, key: u128) -> Out {
    let (a, b, c) = k3(key);
    let (pa, pb, pc) = (T::fb(a), T::fb(b), T::fb(c));
    let (want, nt) = refs::fma(T::N, T::ES, kind, a, b, c);
    let got = guard(|| {
        match kind {
            0 => pa.mul_add(pb, pc),
            1 => pa.mul_sub(pb, pc),
            _ => pc.sub_product(pa, pb),
        }
        .tb() as u128
    });
    Out::cmp(got, want as u128, nt)
}

const KINDS: [&str; 3] = ["mul_add", "mul_sub", "sub_product"];

/// cancellation collisions: c chosen so that a*b (+/-) c is 0, or within a few encodings of it
fn cancel_space<T: Fx>(kind: u8, al: Vec<u32>) -> Space {
    let n = al.len() as u64;
    let (nn, es) = (T::N, T::ES);
    Space::func(n * n * 7, "cancellation: (a,b) in alphabet^2, c = -+round(a*b) displaced by -3..3 encodings", move |i| {
        let d = (i % 7) as i32 - 3;
        let j = i / 7;
        let (a, b) = (al[(j / n) as usize], al[(j % n) as usize]);
        let (p, _) = refs::bin(nn, es, 2, a, b);
        // the c that cancels: mul_add: c = -p ; mul_sub: c = p ; sub_product: c = p
        let base = if kind == 0 { p.wrapping_neg() & refs::mask(nn) } else { p };
        let c = base.wrapping_add(d as u32) & refs::mask(nn);
        (a as u128) << 64 | (b as u128) << 32 | c as u128
    })
}

pub fn c05<T: Fx>(thorough: bool) -> Vec<CellDef> {
    let mut v = vec![];
    // operand pairs whose exact product has a sparse tail (see deep.rs), shared by the three kinds
    let deep: Option<(std::sync::Arc<Vec<(u32, u32)>>, i32, String)> = match T::N {
        16 => {
            let z = if thorough { 12 } else { 14 };
            Some((std::sync::Arc::new(crate::deep::pairs16(z)), 16, format!("every positive P16E1 pair whose exact product ends in a lone bit below >= {z} zeros or in > {z} ones (complete search of 2^29 pairs)")))
        }
        32 => {
            let z = if thorough { 16 } else { 20 };
            let mut pr = crate::deep::pairs32(z, true);
            pr.extend(crate::deep::inverse_pairs(32, 2, if thorough { 1 << 13 } else { 1 << 10 }));
            pr.sort();
            pr.dedup();
            Some((std::sync::Arc::new(pr), 66, format!("a in [1,2) with a 27-bit fraction shape x b at every scale with every fraction shape, kept when the exact product has a sparse tail of length >= {z}; plus modular-inverse pairs (unstructured a, b solved so that the low 28 product bits are a chosen tail)")))
        }
        _ => None,
    };
    // pairs whose product is unusually close to a rounding boundary + the sparse-tail pairs, with the addend solved for
    let solve: Option<(std::sync::Arc<Vec<(u32, u32)>>, u32, String)> = match T::N {
        16 => {
            let mut pr = crate::deep::near_tie_pairs(16, 1, if thorough { 400 } else { 150 }, 5, if thorough { 12 } else { 3 });
            let nt = pr.len();
            pr.extend(crate::deep::pairs16(if thorough { 14 } else { 16 }));
            pr.extend(crate::deep::unstructured_pairs(16, 1, if thorough { 20_000 } else { 2_000 }));
            pr.sort();
            pr.dedup();
            Some((std::sync::Arc::new(pr), 30, format!("{nt} P16E1 pairs (fraction shapes + unstructured fractions at a menu of scales, complete cross product) whose exact product is within 2^-5 guard-bit units of a rounding boundary (stratified by product scale and distance), plus the sparse-tail pairs and unstructured pairs")))
        }
        32 => {
            let zz = 8;
            let mut pr = crate::deep::near_tie_pairs(32, 2, if thorough { 800 } else { 300 }, zz, if thorough { 12 } else { 3 });
            let nt = pr.len();
            if let Some((d, _, _)) = &deep {
                pr.extend(d.iter().copied().step_by(if thorough { 2 } else { 8 }));
            }
            pr.extend(crate::deep::unstructured_pairs(32, 2, if thorough { 40_000 } else { 4_000 }));
            pr.sort();
            pr.dedup();
            Some((std::sync::Arc::new(pr), 60, format!("{nt} P32E2 pairs (fraction shapes + unstructured fractions at a menu of scales, complete cross product) whose exact product is within 2^-{zz} guard-bit units of a rounding boundary (stratified by product scale and distance), plus a subset of the sparse-tail pairs and unstructured pairs")))
        }
        _ => None,
    };
    for kind in 0..3u8 {
        if let Some((pairs, depth, what)) = &deep {
            v.push(CellDef::new("C05", format!("{}/{}#deep", T::NAME, KINDS[kind as usize]), crate::deep::space(T::N, T::ES, pairs.clone(), *depth, true, what), move |k| fma_case::<T>(kind, k)));
        }
        if let Some((pairs, jmax, what)) = &solve {
            let (nfm, nb) = if thorough { (4, 5) } else { (2, 3) };
            v.push(CellDef::new("C05", format!("{}/{}#solve", T::NAME, KINDS[kind as usize]), crate::deep::solve_space(T::N, T::ES, pairs.clone(), *jmax, nfm, nb, kind, what), move |k| fma_case::<T>(kind, k)));
        }
        for (sfx, sp) in triples::<T>(thorough) {
            v.push(CellDef::new("C05", format!("{}/{}{}", T::NAME, KINDS[kind as usize], sfx), sp, move |k| fma_case::<T>(kind, k)));
        }
        if T::N > 8 {
            let al = alphabet(T::N, T::ES, thorough);
            let al = if T::N == 32 && !thorough { thin(&al, 2) } else { al };
            v.push(CellDef::new("C05", format!("{}/{}#cancel", T::NAME, KINDS[kind as usize]), cancel_space::<T>(kind, al), move |k| fma_case::<T>(kind, k)));
        }
    }
    v
}

// -------------------------------------------------------------------------------------------------
// C06
// -------------------------------------------------------------------------------------------------

pub fn c06<T: Fx>(thorough: bool) -> Vec<CellDef> {
    refs::fdec_selftest(); // the fast decode used by the sqrt acceptance test agrees with the reference decode
    let mut v = vec![];
    for (sfx, sp) in unary_low::<T>(thorough, 0) {
        v.push(CellDef::new("C06", format!("{}/sqrt{}", T::NAME, sfx), sp, |k| {
            let a = k as u32;
            let got = guard(|| T::fb(a).sqrt().tb() as u128);
            // fast path: the returned root is proved correct by squaring its two rounding boundaries
            if let Some(g) = got {
                if let Some(nt) = refs::sqrt_verify(T::N, T::ES, a, g as u32) {
                    return Out { ok: true, nt, got: g, want: g, ops: 1, panicked: false };
                }
            }
            let (want, nt) = refs::sqrt(T::N, T::ES, a);
            Out::cmp(got, want as u128, nt)
        }));
    }
    if T::N == 32 && !thorough {
        // perfect squares and their two encoding neighbours
        let mut l: Vec<u32> = vec![];
        for p in alphabet(32, 2, true) {
            if let Some(x) = o::decode(32, 2, p) {
                if !x.neg && !x.is_zero() {
                    let (sq, inex) = o::round_ex(32, 2, o::mul(x, x));
                    if !inex {
                        l.extend_from_slice(&[sq, sq.wrapping_add(1), sq.wrapping_sub(1)]);
                    }
                }
            }
        }
        for i in 1..4096u32 {
            let (sq, _) = refs::from_int(32, 2, (i as i128) * (i as i128));
            l.extend_from_slice(&[sq, sq.wrapping_add(1), sq.wrapping_sub(1)]);
        }
        l.sort();
        l.dedup();
        v.push(CellDef::new("C06", "P32E2/sqrt#squares", Space::list32(l, "perfect squares (of alphabet members and of 1..4095) and their two encoding neighbours"), |k| {
            let a = k as u32;
            let (want, nt) = refs::sqrt(32, 2, a);
            Out::cmp(guard(|| T::fb(a).sqrt().tb() as u128), want as u128, nt)
        }));
    }
    v
}

// -------------------------------------------------------------------------------------------------
// C08
// -------------------------------------------------------------------------------------------------

fn conv_cell<S: Fx, D: Fx>(thorough: bool, f: fn(S) -> D) -> Vec<CellDef> {
    let mut v = vec![];
    if S::N == 32 && !thorough {
        // source values that are an exact tie of the target plus one lone bit at every distance the source can hold
        let lim = (D::N as i32 - 2) * (1 << D::ES) + 2;
        let mut l: Vec<u32> = vec![];
        for (m, e) in tie_bit_values(D::N, D::ES, 28, -lim..=lim) {
            for neg in [false, true] {
                let (p, inex) = o::round_ex(32, 2, o::Ex { neg, m, e, sticky: false });
                if !inex {
                    l.push(p);
                }
            }
        }
        l.sort();
        l.dedup();
        v.push(CellDef::new("C08", format!("{}->{}#tiebit", S::NAME, D::NAME), Space::list32(l, "P32E2 values that are an exact tie of the target + one lone bit d places below the guard bit (every d the source can hold), every scale"), move |k| {
            let a = k as u32;
            let (want, nt) = refs::conv(S::N, S::ES, D::N, D::ES, a);
            Out::cmp(guard(|| f(S::fb(a)).tb() as u128), want as u128, nt)
        }));
    }
    for (sfx, sp) in unary_low::<S>(thorough, 0) {
        v.push(CellDef::new("C08", format!("{}->{}{}", S::NAME, D::NAME, sfx), sp, move |k| {
            let a = k as u32;
            let (want, nt) = refs::conv(S::N, S::ES, D::N, D::ES, a);
            Out::cmp(guard(|| f(S::fb(a)).tb() as u128), want as u128, nt)
        }));
    }
    v
}

pub fn c08(thorough: bool) -> Vec<CellDef> {
    let mut v = vec![];
    v.extend(conv_cell::<P8E0, P16E1>(thorough, |p| P16E1::from(p)));
    v.extend(conv_cell::<P8E0, P32E2>(thorough, |p| P32E2::from(p)));
    v.extend(conv_cell::<P16E1, P8E0>(thorough, |p| P8E0::from(p)));
    v.extend(conv_cell::<P16E1, P32E2>(thorough, |p| P32E2::from(p)));
    v.extend(conv_cell::<P32E2, P8E0>(thorough, |p| P8E0::from(p)));
    v.extend(conv_cell::<P32E2, P16E1>(thorough, |p| P16E1::from(p)));
    // widening then narrowing is the identity
    v.push(CellDef::new("C08", "P8E0->P16E1->P8E0", Space::all(8), |k| {
        Out::cmp(guard(|| P8E0::from(P16E1::from(P8E0::fb(k as u32))).tb() as u128), k, false).ops(2)
    }));
    v.push(CellDef::new("C08", "P8E0->P32E2->P8E0", Space::all(8), |k| {
        Out::cmp(guard(|| P8E0::from(P32E2::from(P8E0::fb(k as u32))).tb() as u128), k, false).ops(2)
    }));
    v.push(CellDef::new("C08", "P16E1->P32E2->P16E1", Space::all(16), |k| {
        Out::cmp(guard(|| P16E1::from(P32E2::from(P16E1::fb(k as u32))).tb() as u128), k, false).ops(2)
    }));
    v
}

// -------------------------------------------------------------------------------------------------
// C09
// -------------------------------------------------------------------------------------------------

const RND: [&str; 5] = ["round", "floor", "ceil", "trunc", "fract"];

pub fn c09<T: Fx>(thorough: bool) -> Vec<CellDef> {
    let mut v = vec![];
    for which in 0..5u8 {
        let case = move |k: u128| {
            let a = k as u32;
            let (want, nt) = refs::rounding(T::N, T::ES, which, a);
            let p = T::fb(a);
            Out::cmp(
                guard(|| {
                    match which {
                        0 => p.round(),
                        1 => p.floor(),
                        2 => p.ceil(),
                        3 => p.trunc(),
                        _ => p.fract(),
                    }
                    .tb() as u128
                }),
                want as u128,
                nt,
            )
        };
        if T::N == 32 && which < 4 && !light() {
            // integer-valued and monotone: complete sweep of all 2^32 inputs, the reference evaluated at interval ends
            // (vpcore::mono); every input is still executed on the real code and compared
            let id = 0xC09_0000 + which as u64;
            v.push(CellDef::new("C09", format!("{}/{}", T::NAME, RND[which as usize]), Space::all(32), move |k| {
                let a = k as u32;
                let (want, multi) = vpcore::mono::lookup(id, a, &|x| refs::rounding(32, 2, which, x).0 as u128);
                let p = T::fb(a);
                Out::cmp(
                    guard(|| {
                        match which {
                            0 => p.round(),
                            1 => p.floor(),
                            2 => p.ceil(),
                            _ => p.trunc(),
                        }
                        .tb() as u128
                    }),
                    want,
                    multi,
                )
            }));
            continue;
        }
        // fract is not monotone: per-case reference, still every pattern (lattice only in the C16 quick pass)
        for (sfx, sp) in unary_low::<T>(thorough, 0) {
            v.push(CellDef::new("C09", format!("{}/{}{}", T::NAME, RND[which as usize], sfx), sp, case));
        }
        if T::N == 32 && !thorough {
            // every integer and half-integer up to 2^17 (both signs) and their encoding neighbours
            let mut l: Vec<u32> = vec![];
            for i in 0..(1i128 << 18) {
                let (p, _) = o::round_ex(32, 2, o::Ex { neg: false, m: i as u128, e: -1, sticky: false });
                for d in [-1i32, 0, 1] {
                    let q = p.wrapping_add(d as u32);
                    l.push(q);
                    l.push(q.wrapping_neg());
                }
            }
            l.sort();
            l.dedup();
            v.push(CellDef::new("C09", format!("P32E2/{}#ints", RND[which as usize]), Space::list32(l, "k/2 for k < 2^18, both signs, with encoding neighbours"), case));
        }
    }
    v
}

// -------------------------------------------------------------------------------------------------
// C10
// -------------------------------------------------------------------------------------------------

fn order_case<T: Fx>(key: u128) -> Out {
    let (a, b) = k2(key);
    let (pa, pb) = (T::fb(a), T::fb(b));
    let w = refs::ord(T::N, T::ES, a, b);
    let (lt, eq, gt) = (w == Ordering::Less, w == Ordering::Equal, w == Ordering::Greater);
    let oi = |o: Ordering| -> u128 {
        match o {
            Ordering::Less => 0,
            Ordering::Equal => 1,
            Ordering::Greater => 2,
        }
    };
    let bits = |v: &[bool]| -> u128 { v.iter().enumerate().fold(0u128, |acc, (i, &b)| acc | (b as u128) << i) };
    let want = oi(w) | oi(w) << 2 | oi(w) << 4 | bits(&[lt, !gt, gt, !lt, eq, !eq, lt, !gt, gt, !lt, eq]) << 8;
    let got = guard(|| {
        let c1 = pa.c_cmp(pb);
        let c2 = Ord::cmp(&pa, &pb);
        let c3 = pa.partial_cmp(&pb).map_or(3, oi);
        oi(c1) | oi(c2) << 2 | c3 << 4
            | bits(&[pa < pb, pa <= pb, pa > pb, pa >= pb, pa == pb, pa != pb, pa.c_lt(pb), pa.c_le(pb), pa.c_gt(pb), pa.c_ge(pb), pa.c_eq(pb)]) << 8
    });
    Out::cmp(got, want, !eq).ops(14)
}

fn minmax_case<T: Fx>(key: u128) -> Out {
    let (a, b) = k2(key);
    let (pa, pb) = (T::fb(a), T::fb(b));
    let w = refs::ord(T::N, T::ES, a, b);
    let mn = if w == Ordering::Greater { b } else { a };
    let mx = if w == Ordering::Less { b } else { a };
    // copysign: magnitude of a with the sign of b (NaR has no sign: unconstrained, skip those)
    let want = (mn as u128) | (mx as u128) << 32 | (mn as u128) << 64 | (mx as u128) << 96;
    let got = guard(|| {
        (pa.c_min(pb).tb() as u128) | (pa.c_max(pb).tb() as u128) << 32 | (Ord::min(pa, pb).tb() as u128) << 64 | (Ord::max(pa, pb).tb() as u128) << 96
    });
    Out::cmp(got, want, w != Ordering::Equal).ops(4)
}

fn copysign_case<T: Fx>(key: u128) -> Out {
    let (a, b) = k2(key);
    let (pa, pb) = (T::fb(a), T::fb(b));
    let (da, db) = (o::decode(T::N, T::ES, a), o::decode(T::N, T::ES, b));
    let nar = o::nar(T::N);
    let got = guard(|| pa.copysign(pb).tb() as u128);
    match (da, db) {
        (Some(x), Some(y)) => {
            // zero carries a positive sign
            let v = o::Ex { neg: y.neg && !x.is_zero(), ..x };
            Out::cmp(got, o::round(T::N, T::ES, v) as u128, x.neg != y.neg)
        }
        (None, _) => Out::cmp(got, nar as u128, true),
        // sign of NaR is not constrained by the property: accept +-|a|
        (Some(x), None) => {
            let p = o::round(T::N, T::ES, o::Ex { neg: false, ..x });
            let ok = got.map_or(false, |g| g == p as u128 || g == (p.wrapping_neg() & refs::mask(T::N)) as u128);
            Out::verdict(got, ok, p as u128, true)
        }
    }
}

fn clamp_case<T: Fx>(key: u128) -> Out {
    let (x, lo, hi) = k3(key);
    if refs::ord(T::N, T::ES, lo, hi) == Ordering::Greater {
        // precondition of clamp (as in std): outside the property
        return Out::skip();
    }
    let w = if refs::ord(T::N, T::ES, x, lo) == Ordering::Less {
        lo
    } else if refs::ord(T::N, T::ES, x, hi) == Ordering::Greater {
        hi
    } else {
        x
    };
    // the inherent clamp and the one the derived Ord provides
    let got = guard(|| {
        let (a, b) = (T::fb(x).c_clamp(T::fb(lo), T::fb(hi)).tb() as u128, T::fb(x).o_clamp(T::fb(lo), T::fb(hi)).tb() as u128);
        if a == b { a } else { a | b << 32 | 1 << 100 }
    });
    Out::cmp(got, w as u128, w != x)
}

fn cat(c: FpCategory) -> u128 {
    match c {
        FpCategory::Nan => 0,
        FpCategory::Infinite => 1,
        FpCategory::Zero => 2,
        FpCategory::Subnormal => 3,
        FpCategory::Normal => 4,
    }
}

fn flags(v: &[bool]) -> u128 {
    v.iter().enumerate().fold(0u128, |acc, (i, &b)| acc | (b as u128) << i)
}

/// neg (both spellings), abs, signum: exact values
fn unary_vals_case<T: Fx>(key: u128) -> Out {
    let a = key as u32;
    let p = T::fb(a);
    let d = o::decode(T::N, T::ES, a);
    let nar = o::nar(T::N);
    let m = refs::mask(T::N);
    let one = 1u32 << (T::N - 2);
    let negw = d.map_or(nar, |x| o::round(T::N, T::ES, x.negate()));
    let absw = d.map_or(nar, |x| o::round(T::N, T::ES, o::Ex { neg: false, ..x }));
    let sgw = match d {
        None => nar,
        Some(x) if x.is_zero() => 0,
        Some(x) if x.neg => one.wrapping_neg() & m,
        _ => one,
    };
    let want = (negw as u128) | (negw as u128) << 32 | (absw as u128) << 64 | (sgw as u128) << 96;
    let got = guard(|| (p.c_neg().tb() as u128) | ((-p).tb() as u128) << 32 | (p.abs().tb() as u128) << 64 | (p.signum().tb() as u128) << 96);
    Out::cmp(got, want, true).ops(4)
}

/// predicates, classify, and neg as an involution
fn unary_preds_case<T: Fx>(key: u128) -> Out {
    let a = key as u32;
    let p = T::fb(a);
    let d = o::decode(T::N, T::ES, a);
    let isnar = d.is_none();
    let iszero = d.map_or(false, |x| x.is_zero());
    let neg = d.map_or(false, |x| x.neg);
    let class = if isnar {
        FpCategory::Nan
    } else if iszero {
        FpCategory::Zero
    } else {
        FpCategory::Normal
    };
    // is_sign_positive/negative of NaR are unconstrained (NaR has no sign): masked out for NaR
    let want = flags(&[isnar, isnar, iszero, !isnar, !isnar && !neg, !isnar && neg, true]) | cat(class) << 16;
    let got = guard(|| {
        flags(&[
            p.is_nar(),
            p.is_nan(),
            p.is_zero(),
            p.is_finite(),
            !isnar && p.is_sign_positive(),
            !isnar && p.is_sign_negative(),
            p.c_neg().c_neg().tb() == a,
        ]) | cat(p.classify()) << 16
    });
    Out::cmp(got, want, true).ops(9)
}

pub fn c10<T: Fx>(thorough: bool) -> Vec<CellDef> {
    let mut v = vec![];
    let ps = |t: bool| -> Vec<(String, Space)> {
        if T::N == 32 {
            let r = alphabet(32, 2, true);
            let mut s = vec![(String::new(), Space::prod2(r.clone(), r.clone(), "A(32,2,rich)^2"))];
            if t {
                let l: Vec<u32> = (0..lattice_len(32, 19)).map(|i| lattice_key(32, 19, i)).collect();
                s.push(("#L".into(), Space::prod2(l.clone(), l, "lattice(top 13 bits x low menu)^2")));
            }
            s
        } else {
            pairs::<T>(t)
        }
    };
    for (sfx, sp) in ps(thorough) {
        v.push(CellDef::new("C10", format!("{}/order{}", T::NAME, sfx), sp, order_case::<T>));
    }
    for (sfx, sp) in ps(thorough) {
        v.push(CellDef::new("C10", format!("{}/minmax{}", T::NAME, sfx), sp, minmax_case::<T>));
    }
    for (sfx, sp) in ps(thorough) {
        v.push(CellDef::new("C10", format!("{}/copysign{}", T::NAME, sfx), sp, copysign_case::<T>));
    }
    let tri = match T::N {
        8 => Space::all3(8),
        16 => {
            let c = alphabet(16, 1, thorough);
            let c = if thorough { thin(&c, 2) } else { c };
            Space::prod3(c.clone(), c.clone(), c, "A(16,1)^3")
        }
        _ => {
            let c = alphabet(32, 2, false);
            let c = thin(&c, if thorough { 2 } else { 3 });
            Space::prod3(c.clone(), c.clone(), c, "thin(A(32,2,coarse))^3")
        }
    };
    v.push(CellDef::new("C10", format!("{}/clamp", T::NAME), tri, clamp_case::<T>));
    for (sfx, sp) in unary_low::<T>(thorough, 8) {
        v.push(CellDef::new("C10", format!("{}/unary_values{}", T::NAME, sfx), sp, unary_vals_case::<T>));
    }
    for (sfx, sp) in unary_low::<T>(thorough, 8) {
        v.push(CellDef::new("C10", format!("{}/unary_predicates{}", T::NAME, sfx), sp, unary_preds_case::<T>));
    }
    v
}

// -------------------------------------------------------------------------------------------------
// C02 float -> posit
// -------------------------------------------------------------------------------------------------

fn f32_space(thorough: bool) -> Vec<(String, Space)> {
    // every f32 bit pattern in both tiers; only the C16 quick pass (VERIF_LIGHT) uses the lattice
    if thorough || !light() {
        vec![(String::new(), Space::all(32))]
    } else {
        // sign x exponent x top 13 mantissa bits x low menu
        vec![(String::new(), { let low = if light() { 10 } else { 4 }; Space::func(lattice_len(32, low), format!("f32 lattice: every sign/exponent/top mantissa bits (top {} bits) x low menu", 32 - low), move |i| lattice_key(32, low, i) as u128) })]
    }
}

pub fn c02<T: Fx>(thorough: bool) -> Vec<CellDef> {
    let mut v = vec![];
    for (sfx, sp) in f32_space(thorough) {
        v.push(CellDef::new("C02", format!("{}/from_f32{}", T::NAME, sfx), sp, |k| {
            let x = f32::from_bits(k as u32);
            let (want, nt) = refs::from_f64(T::N, T::ES, x as f64);
            let w = want as u128;
            let got = guard(|| {
                let a = T::from_f32(x).tb();
                let b = T::into_f32(x).tb();
                let c = T::from_f64(x as f64).tb();
                if a == b && b == c {
                    a as u128
                } else {
                    (a as u128) | (b as u128) << 32 | (c as u128) << 64 | 1 << 100
                }
            });
            Out::cmp(got, w, nt).ops(3)
        }));
    }
    // structured doubles
    let mans = f64_mantissas();
    let nm = mans.len() as u64;
    let f64case = |x: f64| -> Out {
        let (want, nt) = refs::from_f64(T::N, T::ES, x);
        let got = guard(|| {
            let a = T::from_f64(x).tb();
            let b = T::into_f64(x).tb();
            if a == b {
                a as u128
            } else {
                (a as u128) | (b as u128) << 32 | 1 << 100
            }
        });
        Out::cmp(got, want as u128, nt).ops(2)
    };
    v.push(CellDef::new(
        "C02",
        format!("{}/from_f64#F64S", T::NAME),
        Space::func(2 * 2048 * nm, format!("F64S: sign x all 2048 exponent fields x {} mantissas (tie / tie+-eps at every cut position)", nm), move |i| {
            let mi = (i % nm) as usize;
            let e = (i / nm) % 2048;
            let s = i / nm / 2048;
            ((s << 63) | (e << 52) | mans[mi]) as u128
        }),
        move |k| f64case(f64::from_bits(k as u64)),
    ));
    // "cut x tail" doubles: every exponent field the type can see (and a margin into saturation / subnormals) x every cut
    // position of the 52-bit mantissa x 5 kept prefixes x every pattern of the 6 bits below the cut x low fill {0s, 1s}
    {
        let lim = (T::N as u64 - 2) * (1 << T::ES) + 8;
        let exps: Vec<u64> = (1023 - lim..=1023 + lim).chain([0u64, 1, 2, 2046, 2045]).collect();
        let ne = exps.len() as u64;
        v.push(CellDef::new(
            "C02",
            format!("{}/from_f64#cuts", T::NAME),
            Space::func(2 * ne * 52 * 5 * 64 * 2, format!("sign x {} exponent fields x 52 cut positions x 5 kept prefixes x every 6-bit tail below the cut x low fill", ne), move |i| {
                let mut r = i;
                let fill = r & 1;
                r >>= 1;
                let tail = r & 63;
                r >>= 6;
                let pi = r % 5;
                r /= 5;
                let c = r % 52; // kept mantissa bits
                r /= 52;
                let e = exps[(r % ne) as usize];
                let sgn = r / ne;
                let below = 52 - c;
                let tb = below.min(6);
                let rest = below - tb;
                let full_c = if c == 0 { 0 } else { (1u64 << c) - 1 };
                let prefix = match pi { 0 => 0, 1 => full_c, 2 => 0x5555_5555_5555_5555 & full_c, 3 => 0x1234_5678_9abc_def1 & full_c, _ => 0x0fed_cba9_8765_4321 & full_c };
                let fillv = if fill == 1 && rest > 0 { (1u64 << rest) - 1 } else { 0 };
                let man = (prefix << below) | ((tail & ((1 << tb) - 1)) << rest) | fillv;
                ((sgn << 63) | (e << 52) | man) as u128
            }),
            move |k| f64case(f64::from_bits(k as u64)),
        ));
    }
    // tie plus one lone bit at every distance below the guard bit, at every scale (f64 and f32 sources)
    {
        let lim = (T::N as i32 - 2) * (1 << T::ES) + 2;
        let vals = tie_bit_values(T::N, T::ES, 52, -lim..=lim);
        let mut l64: Vec<u128> = vec![];
        let mut l32: Vec<u128> = vec![];
        for (m, e) in vals {
            for neg in [false, true] {
                let x = o::Ex { neg, m, e, sticky: false };
                if let Some(b) = o::to_f64_bits_exact(x) {
                    l64.push(b as u128);
                    let f = f64::from_bits(b);
                    if (f as f32) as f64 == f {
                        l32.push((f as f32).to_bits() as u128);
                    }
                }
            }
        }
        l64.sort();
        l64.dedup();
        l32.sort();
        l32.dedup();
        v.push(CellDef::new("C02", format!("{}/from_f64#tiebit", T::NAME), Space::list(l64, "for every scale and a menu of kept fractions: the exact tie and tie + one lone bit d places below the guard bit, d = 1..52, both signs (the values f64 holds exactly)"), move |k| f64case(f64::from_bits(k as u64))));
        v.push(CellDef::new("C02", format!("{}/from_f32#tiebit", T::NAME), Space::list(l32, "the same family restricted to values f32 holds exactly"), |k| {
            let x = f32::from_bits(k as u32);
            let (want, nt) = refs::from_f64(T::N, T::ES, x as f64);
            let got = guard(|| {
                let a = T::from_f32(x).tb();
                let b = T::into_f32(x).tb();
                let c = T::from_f64(x as f64).tb();
                if a == b && b == c { a as u128 } else { (a as u128) | (b as u128) << 32 | (c as u128) << 64 | 1 << 100 }
            });
            Out::cmp(got, want as u128, nt).ops(3)
        }));
    }
    // doubles at and around every rounding boundary of the target
    let targets: Space = match T::N {
        8 => Space::all(8),
        16 => Space::all(16),
        _ => {
            if thorough {
                Space::all(32)
            } else {
                let mut l: Vec<u32> = alphabet(32, 2, true);
                l.extend((0..lattice_len(32, 14)).map(|i| lattice_key(32, 14, i)));
                l.sort();
                l.dedup();
                Space::list32(l, "A(32,2,rich) + lattice(top 18 bits x low menu)")
            }
        }
    };
    let tdesc = targets.desc.clone();
    let tkey = targets.key;
    let (n, es) = (T::N, T::ES);
    v.push(CellDef::new(
        "C02",
        format!("{}/from_f64#F64T", T::NAME),
        Space::func(targets.len * 6, format!("F64T: for every target posit p in {tdesc}: the doubles mid(p,p+), its two f64 neighbours, p, and p's two f64 neighbours"), move |i| {
            let p = tkey(i / 6) as u32;
            let j = i % 6;
            // value of p, or the encoding midpoint between p and p+1
            let val = if j < 3 { o::decode64(n + 1, es, ((p as u64) << 1) | 1) } else { o::decode(n, es, p) };
            let x = match val.and_then(o::to_f64_bits_exact) {
                Some(b) => f64::from_bits(b),
                None => return 0u128, // NaR / maxpos boundary: +0.0 as a harmless stand-in
            };
            let y = match j % 3 {
                0 => x,
                1 => f64_next_up(x),
                _ => f64_next_down(x),
            };
            y.to_bits() as u128
        }),
        move |k| f64case(f64::from_bits(k as u64)),
    ));
    v
}

// -------------------------------------------------------------------------------------------------
// C03 posit -> float, round trips
// -------------------------------------------------------------------------------------------------

pub fn c03<T: Fx>(thorough: bool) -> Vec<CellDef> {
    let mut v = vec![];
    for (sfx, sp) in unary_low::<T>(thorough, 0) {
        v.push(CellDef::new("C03", format!("{}/to_f64{}", T::NAME, sfx), sp, |k| {
            let a = k as u32;
            let p = T::fb(a);
            let d = o::decode(T::N, T::ES, a);
            let got = guard(|| {
                let (f, g) = (p.to_f64(), p.f64_from());
                if f.to_bits() == g.to_bits() || (f.is_nan() && g.is_nan()) {
                    if f.is_nan() { 0x7ff8_0000_0000_0000u128 } else { f.to_bits() as u128 }
                } else {
                    (f.to_bits() as u128) | (g.to_bits() as u128) << 64
                }
            });
            let want = match d {
                None => 0x7ff8_0000_0000_0000u128,
                Some(x) => o::to_f64_bits_exact(x).expect("posit value fits f64") as u128,
            };
            Out::cmp(got, want, true).ops(2)
        }));
    }
    for (sfx, sp) in unary_low::<T>(thorough, 0) {
        v.push(CellDef::new("C03", format!("{}/to_f32{}", T::NAME, sfx), sp, |k| {
            let a = k as u32;
            let p = T::fb(a);
            let d = o::decode(T::N, T::ES, a);
            let got = guard(|| {
                let (f, g) = (p.to_f32(), p.f32_from());
                if f.to_bits() == g.to_bits() || (f.is_nan() && g.is_nan()) {
                    if f.is_nan() { 0x7fc0_0000u128 } else { f.to_bits() as u128 }
                } else {
                    (f.to_bits() as u128) | (g.to_bits() as u128) << 64
                }
            });
            let (want, nt) = match d {
                None => (0x7fc0_0000u128, true),
                Some(x) => {
                    let w = o::to_f32_rne_bits(x);
                    // non-trivial when the f32 result is not exact
                    let exact = o::from_f32(f32::from_bits(w)).map_or(false, |y| o::cmp(x, y) == Ordering::Equal);
                    (w as u128, !exact)
                }
            };
            Out::cmp(got, want, nt).ops(2)
        }));
    }
    for (sfx, sp) in unary_low::<T>(thorough, 0) {
        v.push(CellDef::new("C03", format!("{}/f64_roundtrip{}", T::NAME, sfx), sp, |k| {
            let a = k as u32;
            let p = T::fb(a);
            Out::cmp(guard(|| T::into_f64(p.f64_from()).tb() as u128), a as u128, true).ops(2)
        }));
    }
    let text_spaces: Vec<(String, Space)> = if T::N == 32 && !thorough {
        vec![
            (String::new(), Space::func(lattice_len(32, 9), "lattice(top 23 bits x low menu)", |i| lattice_key(32, 9, i) as u128)),
            ("#A".into(), Space::list32(alphabet(32, 2, true), "A(32,2,rich)")),
        ]
    } else {
        unary::<T>(thorough)
    };
    for (sfx, sp) in text_spaces {
        v.push(CellDef::new("C03", format!("{}/text_roundtrip{}", T::NAME, sfx), sp, |k| {
            let a = k as u32;
            let p = T::fb(a);
            let got = guard(|| match p.to_string().parse::<T>() {
                Ok(q) => q.tb() as u128,
                Err(_) => 1u128 << 100,
            });
            Out::cmp(got, a as u128, true).ops(2)
        }));
    }
    v
}

// -------------------------------------------------------------------------------------------------
// C07 integer conversions
// -------------------------------------------------------------------------------------------------

fn int32_space(thorough: bool) -> Vec<(String, Space)> {
    if thorough {
        vec![(String::new(), Space::all(32))]
    } else {
        vec![
            (String::new(), { let low = if light() { 12 } else { 4 }; Space::func(lattice_len(32, low), format!("lattice(top {} bits x low menu)", 32 - low), move |i| lattice_key(32, low, i) as u128) }),
            ("#small".into(), Space::func(1 << 18, "|x| < 2^17 contiguous", |i| (i as i64 - (1 << 17)) as i32 as u32 as u128)),
        ]
    }
}

fn int64_space(thorough: bool) -> Vec<(String, Space)> {
    let hb = if thorough { 22 } else { 16 };
    let ext: Vec<u128> = {
        let mut l = vec![];
        for d in 0..512u64 {
            for base in [0u64, u64::MAX, i64::MAX as u64, i64::MIN as u64, u32::MAX as u64, 1 << 32, 1 << 53, 1 << 62, 1 << 63] {
                l.push(base.wrapping_add(d) as u128);
                l.push(base.wrapping_sub(d) as u128);
            }
        }
        l.sort();
        l.dedup();
        l
    };
    vec![
        (String::new(), Space::func(u64_lattice_len(hb), format!("every {hb}-bit head at every shift 0..63 x low fill {{0, ones, 1}}"), move |i| u64_lattice(hb, i) as u128)),
        ("#ext".into(), Space::list(ext, "+-512 around 0, 2^32, 2^53, 2^62, 2^63, 2^64")),
    ]
}

pub fn c07<T: Fx>(thorough: bool) -> Vec<CellDef> {
    let mut v = vec![];
    let (n, es) = (T::N, T::ES);
    // narrow sources: complete
    v.push(CellDef::new("C07", format!("{}/from_i8_u8_i16_u16", T::NAME), Space::all(16), move |k| {
        let x = k as u16;
        let w = |i: i128| refs::from_int(n, es, i).0 as u128;
        let want = w(x as i16 as i128) | w(x as i128) << 32 | w(x as u8 as i8 as i128) << 64 | w(x as u8 as i128) << 96;
        let got = guard(|| {
            let chk = |a: T, b: T| -> u128 { if a.tb() == b.tb() { a.tb() as u128 } else { 0xdead_beef } };
            chk(T::from_i16(x as i16), T::into_i16(x as i16))
                | chk(T::from_u16(x), T::into_u16(x)) << 32
                | chk(T::from_i8(x as u8 as i8), T::into_i8(x as u8 as i8)) << 64
                | chk(T::from_u8(x as u8), T::into_u8(x as u8)) << 96
        });
        Out::cmp(got, want, true).ops(8)
    }));
    for (sfx, sp) in int32_space(thorough) {
        v.push(CellDef::new("C07", format!("{}/from_i32{}", T::NAME, sfx), sp, move |k| {
            let x = k as u32 as i32;
            let (want, nt) = refs::from_int(n, es, x as i128);
            let got = guard(|| {
                let (a, b) = (T::from_i32(x).tb(), T::into_i32(x).tb());
                if a == b { a as u128 } else { (a as u128) | (b as u128) << 32 | 1 << 100 }
            });
            Out::cmp(got, want as u128, nt).ops(2)
        }));
    }
    for (sfx, sp) in int32_space(thorough) {
        v.push(CellDef::new("C07", format!("{}/from_u32{}", T::NAME, sfx), sp, move |k| {
            let x = k as u32;
            let (want, nt) = refs::from_int(n, es, x as i128);
            let got = guard(|| {
                let (a, b) = (T::from_u32(x).tb(), T::into_u32(x).tb());
                if a == b { a as u128 } else { (a as u128) | (b as u128) << 32 | 1 << 100 }
            });
            Out::cmp(got, want as u128, nt).ops(2)
        }));
    }
    for (sfx, sp) in int64_space(thorough) {
        v.push(CellDef::new("C07", format!("{}/from_i64{}", T::NAME, sfx), sp, move |k| {
            let x = k as u64 as i64;
            let (want, nt) = refs::from_int(n, es, x as i128);
            let got = guard(|| {
                let (a, b, c) = (T::from_i64(x).tb(), T::into_i64(x).tb(), T::from_isize(x as isize).tb());
                if a == b && b == c { a as u128 } else { (a as u128) | (b as u128) << 32 | (c as u128) << 64 | 1 << 100 }
            });
            Out::cmp(got, want as u128, nt).ops(3)
        }));
    }
    for (sfx, sp) in int64_space(thorough) {
        v.push(CellDef::new("C07", format!("{}/from_u64{}", T::NAME, sfx), sp, move |k| {
            let x = k as u64;
            let (want, nt) = refs::from_int(n, es, x as i128);
            let got = guard(|| {
                let (a, b, c) = (T::from_u64(x).tb(), T::into_u64(x).tb(), T::from_usize(x as usize).tb());
                if a == b && b == c { a as u128 } else { (a as u128) | (b as u128) << 32 | (c as u128) << 64 | 1 << 100 }
            });
            Out::cmp(got, want as u128, nt).ops(3)
        }));
    }
    {
        // tie plus one lone bit at every distance, at every integer scale
        let vals = tie_bit_values(n, es, 62, 1..=63);
        let mut l: Vec<u128> = vec![];
        for (m, e) in vals {
            if e >= 0 && (128 - m.leading_zeros() as i32 + e) <= 64 {
                l.push(m << e as u32);
            }
        }
        l.sort();
        l.dedup();
        let l2 = l.clone();
        v.push(CellDef::new("C07", format!("{}/from_u64#tiebit", T::NAME), Space::list(l, "integers of the form 1.F 1 0..0 1 (exact tie + one lone bit d places below the guard, every d) at every bit length, and the exact ties"), move |k| {
            let x = k as u64;
            let (want, nt) = refs::from_int(n, es, x as i128);
            let got = guard(|| {
                let (a, b) = (T::from_u64(x).tb(), T::into_u64(x).tb());
                let c = if x <= u32::MAX as u64 { T::from_u32(x as u32).tb() } else { a };
                if a == b && b == c { a as u128 } else { (a as u128) | (b as u128) << 32 | (c as u128) << 64 | 1 << 100 }
            });
            Out::cmp(got, want as u128, nt).ops(3)
        }));
        v.push(CellDef::new("C07", format!("{}/from_i64#tiebit", T::NAME), Space::list(l2.into_iter().filter(|&x| x < (1u128 << 63)).flat_map(|x| [x, (x as i64).wrapping_neg() as u64 as u128]).collect(), "the same family as i64, both signs"), move |k| {
            let x = k as u64 as i64;
            let (want, nt) = refs::from_int(n, es, x as i128);
            let got = guard(|| {
                let (a, b) = (T::from_i64(x).tb(), T::into_i64(x).tb());
                let c = if x >= i32::MIN as i64 && x <= i32::MAX as i64 { T::from_i32(x as i32).tb() } else { a };
                if a == b && b == c { a as u128 } else { (a as u128) | (b as u128) << 32 | (c as u128) << 64 | 1 << 100 }
            });
            Out::cmp(got, want as u128, nt).ops(3)
        }));
    }
    // posit -> integer (NaR is outside the property: skipped)
    for (which, name) in ["to_i32", "to_u32", "to_i64", "to_u64"].iter().enumerate() {
        if T::N == 32 && !light() {
            // monotone: complete sweep of all 2^32 inputs, the reference evaluated at interval ends (vpcore::mono)
            let id = 0xC07_0000 + which as u64;
            v.push(CellDef::new("C07", format!("{}/{}", T::NAME, name), Space::all(32), move |k| {
                let a = k as u32;
                if a == 0x8000_0000 {
                    return Out::skip(); // NaR is outside the property
                }
                let p = T::fb(a);
                let (lo, hi): (i128, i128) = match which {
                    0 => (i32::MIN as i128, i32::MAX as i128),
                    1 => (0, u32::MAX as i128),
                    2 => (i64::MIN as i128, i64::MAX as i128),
                    _ => (0, u64::MAX as i128),
                };
                let (w, multi) = vpcore::mono::lookup(id, a, &|x| vpcore::enc_i(refs::to_int(32, 2, x, lo, hi).unwrap()));
                let got = guard(|| {
                    let (g, h): (i128, i128) = match which {
                        0 => (p.to_i32() as i128, p.i32_from() as i128),
                        1 => (p.to_u32() as i128, p.u32_from() as i128),
                        2 => (p.to_i64() as i128, p.i64_from() as i128),
                        _ => (p.to_u64() as i128, p.u64_from() as i128),
                    };
                    if g == h { vpcore::enc_i(g) } else { 0xdead_beef_0000_0000_0000_0000_0000_0000 }
                });
                Out::cmp(got, w, multi).ops(2)
            }));
            continue;
        }
        for (sfx, sp) in unary_low::<T>(thorough, 7) {
            v.push(CellDef::new("C07", format!("{}/{}{}", T::NAME, name, sfx), sp, move |k| {
                let a = k as u32;
                let p = T::fb(a);
                let (lo, hi): (i128, i128) = match which {
                    0 => (i32::MIN as i128, i32::MAX as i128),
                    1 => (0, u32::MAX as i128),
                    2 => (i64::MIN as i128, i64::MAX as i128),
                    _ => (0, u64::MAX as i128),
                };
                let Some(w) = refs::to_int(n, es, a, lo, hi) else {
                    return Out::skip();
                };
                let x = o::decode(n, es, a).unwrap();
                let nt = !o::is_int(x) || w == lo || w == hi;
                let got = guard(|| {
                    let (g, h): (i128, i128) = match which {
                        0 => (p.to_i32() as i128, p.i32_from() as i128),
                        1 => (p.to_u32() as i128, p.u32_from() as i128),
                        2 => (p.to_i64() as i128, p.i64_from() as i128),
                        _ => (p.to_u64() as i128, p.u64_from() as i128),
                    };
                    if g == h { vpcore::enc_i(g) } else { 0xdead_beef_0000_0000_0000_0000_0000_0000 }
                });
                Out::cmp(got, vpcore::enc_i(w), nt).ops(2)
            }));
        }
    }
    v
}

//! C14: generic <-> generic conversions over (M, N) width pairs and both exponent-size directions.
use softposit::{PxE1, PxE2};
use vpcore::alpha::alphabet;
use vpcore::refs;
use vpcore::{guard, CellDef, Out, Space};

fn src_space(m: u32, es: u32) -> Space {
    let lim = if std::env::var("VERIF_TIER_T").is_ok() { 17 } else { 12 };
    if m <= lim {
        Space::all(m)
    } else {
        let mut l = alphabet(m, es, true);
        l.extend(vpcore::alpha::cut_tail_alphabet(m, es, 3));
        l.sort();
        l.dedup();
        Space::list32(l, format!("A({},{},rich) + every scale x cut position x every 3-bit tail below the cut", m, es))
    }
}

fn e1_to_e2<const M: u32, const N: u32>() -> CellDef {
    CellDef::new("C14", format!("PxE1<{}>->PxE2<{}>", M, N), src_space(M, 1), |k| {
        let a = k as u32;
        let (want, nt) = refs::conv(M, 1, N, 2, a);
        let src = PxE1::<{ M }>::from_bits(a << (32 - M));
        let got = guard(|| {
            let (x, y, z) = (PxE2::<{ N }>::from_pxe1(src).to_bits(), PxE2::<{ N }>::from(src).to_bits(), src.to_pxe2::<{ N }>().to_bits());
            if x == y && y == z { x as u128 } else { (x as u128) | (y as u128) << 32 | (z as u128) << 64 | 1 << 100 }
        });
        Out::cmp(got, (want as u128) << (32 - N), nt).ops(3)
    })
}

fn e2_to_e1<const M: u32, const N: u32>() -> CellDef {
    CellDef::new("C14", format!("PxE2<{}>->PxE1<{}>", M, N), src_space(M, 2), |k| {
        let a = k as u32;
        let (want, nt) = refs::conv(M, 2, N, 1, a);
        let src = PxE2::<{ M }>::from_bits(a << (32 - M));
        let got = guard(|| {
            let (x, y, z) = (PxE1::<{ N }>::from_pxe2(src).to_bits(), PxE1::<{ N }>::from(src).to_bits(), src.to_pxe1::<{ N }>().to_bits());
            if x == y && y == z { x as u128 } else { (x as u128) | (y as u128) << 32 | (z as u128) << 64 | 1 << 100 }
        });
        Out::cmp(got, (want as u128) << (32 - N), nt).ops(3)
    })
}

fn e2_to_e2<const M: u32, const N: u32>() -> CellDef {
    CellDef::new("C14", format!("PxE2<{}>->PxE2<{}>", M, N), src_space(M, 2), |k| {
        let a = k as u32;
        let (want, nt) = refs::conv(M, 2, N, 2, a);
        let src = PxE2::<{ M }>::from_bits(a << (32 - M));
        Out::cmp(guard(|| PxE2::<{ N }>::from_pxe2(src).to_bits() as u128), (want as u128) << (32 - N), nt)
    })
}

macro_rules! for_n {
    ($v:ident, $m:literal; $($n:literal),*) => {$(
        $v.push(e1_to_e2::<$m, $n>());
        $v.push(e2_to_e1::<$m, $n>());
        $v.push(e2_to_e2::<$m, $n>());
    )*};
}
macro_rules! for_m {
    ($v:ident; $($m:literal),*) => {$(
        for_n!($v, $m; 2, 3, 4, 5, 6, 7, 8, 9, 10, 11, 12, 13, 14, 15, 16, 17, 18, 19, 20, 21, 22, 23, 24, 25, 26, 27, 28, 29, 30, 31, 32);
    )*};
}

pub fn cells() -> Vec<CellDef> {
    let mut v = vec![];
    for_m!(v; 2, 3, 4, 5, 6, 7, 8, 9, 10, 11, 12, 13, 14, 15, 16, 17, 18, 19, 20, 21, 22, 23, 24, 25, 26, 27, 28, 29, 30, 31, 32);
    v
}

//! C16: totality cells. One cell per public function that the value properties do not already exercise
//! on its whole input space: the function is simply called; the only oracle is "returns normally"
//! (and, across build profiles, "returns the same bits" via the digest). Whole-body todo!() stubs are
//! passed in by the driver (derived from the sources at run time) and excluded.
use crate::fixed::unary;
use crate::fx::Fx;
use softposit::{P16E1, P32E2, P8E0};
use std::collections::BTreeSet;
use vpcore::alpha::alphabet;
use vpcore::{guard, k2, CellDef, Out, Space};

fn call(got: Option<u128>) -> Out {
    match got {
        Some(g) => Out { ok: true, nt: true, got: g, want: 0, ops: 1, panicked: false },
        None => Out::cmp(None, 0, true),
    }
}

macro_rules! un {
    ($v:ident, $stubs:ident, $t:expr, $P:ty, $($f:ident),*) => {$(
        let name = format!("{}::{}", <$P as Fx>::NAME, stringify!($f));
        if !$stubs.contains(&name) {
            for (sfx, sp) in unary::<$P>($t) {
                $v.push(CellDef::new("C16", format!("{}/total/{}{}", <$P as Fx>::NAME, stringify!($f), sfx), sp, |k| {
                    let p = <$P as Fx>::fb(k as u32);
                    call(guard(|| <$P>::$f(p).to_bits() as u128))
                }));
            }
        }
    )*};
}

macro_rules! bi {
    ($v:ident, $stubs:ident, $t:expr, $P:ty, $($f:ident),*) => {$(
        let name = format!("{}::{}", <$P as Fx>::NAME, stringify!($f));
        if !$stubs.contains(&name) {
            let a = if <$P as Fx>::N == 8 { (0..256).collect::<Vec<u32>>() } else { alphabet(<$P as Fx>::N, <$P as Fx>::ES, $t) };
            let d = format!("alphabet({},{})^2", <$P as Fx>::N, <$P as Fx>::ES);
            $v.push(CellDef::new("C16", format!("{}/total/{}", <$P as Fx>::NAME, stringify!($f)), Space::prod2(a.clone(), a, d), |k| {
                let (a, b) = k2(k);
                let (pa, pb) = (<$P as Fx>::fb(a), <$P as Fx>::fb(b));
                call(guard(|| <$P>::$f(pa, pb).to_bits() as u128))
            }));
        }
    )*};
}

macro_rules! extra {
    ($v:ident, $stubs:ident, $t:expr, $P:ty) => {
        let name = format!("{}::sin_cos", <$P as Fx>::NAME);
        if !$stubs.contains(&name) {
            for (sfx, sp) in unary::<$P>($t) {
                $v.push(CellDef::new("C16", format!("{}/total/sin_cos{}", <$P as Fx>::NAME, sfx), sp, |k| {
                    let p = <$P as Fx>::fb(k as u32);
                    call(guard(|| { let (s, c) = <$P>::sin_cos(p); (s.to_bits() as u128) << 32 | c.to_bits() as u128 }))
                }));
            }
        }
        let name = format!("{}::powi", <$P as Fx>::NAME);
        if !$stubs.contains(&name) {
            let a = alphabet(<$P as Fx>::N, <$P as Fx>::ES, false);
            let e: Vec<u32> = vec![0, 1, 2, 3, 7, 31, 1000, i32::MAX as u32, (-1i32) as u32, (-2i32) as u32, (-31i32) as u32, i32::MIN as u32];
            $v.push(CellDef::new("C16", format!("{}/total/powi", <$P as Fx>::NAME), Space::prod2(a, e, "alphabet x exponent menu"), |k| {
                let (a, b) = k2(k);
                call(guard(|| <$P>::powi(<$P as Fx>::fb(a), b as i32).to_bits() as u128))
            }));
        }
    };
}

pub fn c16(thorough: bool, stubs: &BTreeSet<String>) -> Vec<CellDef> {
    let mut v: Vec<CellDef> = vec![];
    let t = thorough;
    un!(v, stubs, t, P8E0, exp, exp2, ln, log2, log10, cbrt, sin, cos, tan, asin, acos, atan, exp_m1, ln_1p, sinh, cosh, tanh, asinh, acosh, atanh, sqrt, recip, round, floor, ceil, trunc, fract, abs, signum, neg);
    bi!(v, stubs, t, P8E0, powf, hypot, atan2, log, rem, div_euclid, rem_euclid, copysign, min, max);
    extra!(v, stubs, t, P8E0);
    un!(v, stubs, t, P16E1, exp, exp2, ln, log2, log10, cbrt, sin, cos, tan, asin, acos, atan, exp_m1, ln_1p, sinh, cosh, tanh, asinh, acosh, atanh, sqrt, recip, to_degrees, to_radians, round, floor, ceil, trunc, fract, abs, signum, neg, sin_pi, cos_pi, tan_pi, asin_pi, acos_pi, atan_pi);
    bi!(v, stubs, t, P16E1, powf, hypot, atan2, log, rem, div_euclid, rem_euclid, copysign, min, max);
    extra!(v, stubs, t, P16E1);
    un!(v, stubs, t, P32E2, exp, exp2, exp10, ln, log2, log10, cbrt, sin, cos, tan, asin, acos, atan, exp_m1, ln_1p, sinh, cosh, tanh, asinh, acosh, atanh, sqrt, recip, to_degrees, to_radians, round, floor, ceil, trunc, fract, abs, signum, neg);
    bi!(v, stubs, t, P32E2, powf, hypot, atan2, log, rem, div_euclid, rem_euclid, copysign, min, max);
    extra!(v, stubs, t, P32E2);
    v
}

//! C16: totality cells. One cell per public function that the value properties do not already exercise
//! on its whole input space: the function is simply called; the only oracle is "returns normally"
//! (and, across build profiles, "returns the same bits" via the digest). Whole-body todo!() stubs are
//! passed in by the driver (derived from the sources at run time) and excluded.
use crate::fixed::unary_total as unary;
use crate::fx::Fx;
use softposit::{P16E1, P32E2, P8E0};
use std::collections::BTreeSet;
use vpcore::alpha::alphabet;
use vpcore::{guard, k2, CellDef, Out, Space};

fn call(got: Option<u128>) -> Out {
    match got {
        Some(g) => Out { ok: true, nt: true, got: g, want: 0, ops: 1, panicked: false },
        None => Out::cmp(None, 0, true),
    }
}

macro_rules! un {
    ($v:ident, $stubs:ident, $t:expr, $P:ty, $($f:ident),*) => {$(
        let name = format!("{}::{}", <$P as Fx>::NAME, stringify!($f));
        if !$stubs.contains(&name) {
            for (sfx, sp) in unary::<$P>($t) {
                $v.push(CellDef::new("C16", format!("{}/total/{}{}", <$P as Fx>::NAME, stringify!($f), sfx), sp, |k| {
                    let p = <$P as Fx>::fb(k as u32);
                    call(guard(|| <$P>::$f(p).to_bits() as u128))
                }));
            }
        }
    )*};
}

macro_rules! bi {
    ($v:ident, $stubs:ident, $t:expr, $P:ty, $($f:ident),*) => {$(
        let name = format!("{}::{}", <$P as Fx>::NAME, stringify!($f));
        if !$stubs.contains(&name) {
            let a = if <$P as Fx>::N == 8 { (0..256).collect::<Vec<u32>>() } else { alphabet(<$P as Fx>::N, <$P as Fx>::ES, $t) };
            let d = format!("alphabet({},{})^2", <$P as Fx>::N, <$P as Fx>::ES);
            $v.push(CellDef::new("C16", format!("{}/total/{}", <$P as Fx>::NAME, stringify!($f)), Space::prod2(a.clone(), a, d), |k| {
                let (a, b) = k2(k);
                let (pa, pb) = (<$P as Fx>::fb(a), <$P as Fx>::fb(b));
                call(guard(|| <$P>::$f(pa, pb).to_bits() as u128))
            }));
        }
    )*};
}

macro_rules! extra {
    ($v:ident, $stubs:ident, $t:expr, $P:ty) => {
        let name = format!("{}::sin_cos", <$P as Fx>::NAME);
        if !$stubs.contains(&name) {
            for (sfx, sp) in unary::<$P>($t) {
                $v.push(CellDef::new("C16", format!("{}/total/sin_cos{}", <$P as Fx>::NAME, sfx), sp, |k| {
                    let p = <$P as Fx>::fb(k as u32);
                    call(guard(|| { let (s, c) = <$P>::sin_cos(p); (s.to_bits() as u128) << 32 | c.to_bits() as u128 }))
                }));
            }
        }
        let name = format!("{}::powi", <$P as Fx>::NAME);
        if !$stubs.contains(&name) {
            let a = alphabet(<$P as Fx>::N, <$P as Fx>::ES, false);
            let e: Vec<u32> = vec![0, 1, 2, 3, 7, 31, 1000, i32::MAX as u32, (-1i32) as u32, (-2i32) as u32, (-31i32) as u32, i32::MIN as u32];
            $v.push(CellDef::new("C16", format!("{}/total/powi", <$P as Fx>::NAME), Space::prod2(a, e, "alphabet x exponent menu"), |k| {
                let (a, b) = k2(k);
                call(guard(|| <$P>::powi(<$P as Fx>::fb(a), b as i32).to_bits() as u128))
            }));
        }
    };
}

pub fn c16(thorough: bool, stubs: &BTreeSet<String>) -> Vec<CellDef> {
    let mut v: Vec<CellDef> = vec![];
    let t = thorough;
    un!(v, stubs, t, P8E0, exp, exp2, ln, log2, log10, cbrt, sin, cos, tan, asin, acos, atan, exp_m1, ln_1p, sinh, cosh, tanh, asinh, acosh, atanh, sqrt, recip, round, floor, ceil, trunc, fract, abs, signum, neg);
    bi!(v, stubs, t, P8E0, powf, hypot, atan2, log, rem, div_euclid, rem_euclid, copysign, min, max);
    extra!(v, stubs, t, P8E0);
    un!(v, stubs, t, P16E1, exp, exp2, ln, log2, log10, cbrt, sin, cos, tan, asin, acos, atan, exp_m1, ln_1p, sinh, cosh, tanh, asinh, acosh, atanh, sqrt, recip, to_degrees, to_radians, round, floor, ceil, trunc, fract, abs, signum, neg, sin_pi, cos_pi, tan_pi, asin_pi, acos_pi, atan_pi);
    bi!(v, stubs, t, P16E1, powf, hypot, atan2, log, rem, div_euclid, rem_euclid, copysign, min, max);
    extra!(v, stubs, t, P16E1);
    un!(v, stubs, t, P32E2, exp, exp2, exp10, ln, log2, log10, cbrt, sin, cos, tan, asin, acos, atan, exp_m1, ln_1p, sinh, cosh, tanh, asinh, acosh, atanh, sqrt, recip, to_degrees, to_radians, round, floor, ceil, trunc, fract, abs, signum, neg);
    bi!(v, stubs, t, P32E2, powf, hypot, atan2, log, rem, div_euclid, rem_euclid, copysign, min, max);
    extra!(v, stubs, t, P32E2);
    // formatting: Debug of the posit types, Display of the quires (Display of the posits is part of C03)
    {
        use std::fmt::Write;
        macro_rules! dbg_cell { ($P:ty) => {
            for (sfx, sp) in unary::<$P>(t) {
                v.push(CellDef::new("C16", format!("{}/total/Debug{}", <$P as Fx>::NAME, sfx), sp, |k| {
                    let p = <$P as Fx>::fb(k as u32);
                    call(guard(|| { let mut s = String::new(); write!(s, "{:?}", p).unwrap(); s.bytes().fold(s.len() as u128, |h, b| h.wrapping_mul(131) ^ b as u128) }))
                }));
            }
        }; }
        dbg_cell!(P8E0); dbg_cell!(P16E1); dbg_cell!(P32E2);
        // quire states: 0, NaR, +-2^j, +-(2^j - 1) for every bit j of each quire
        v.push(CellDef::new("C16", "Q8E0,Q16E1,Q32E2/total/Display", Space::func(4 * (32 + 128 + 512), "every quire: +-2^j and +-(2^j - 1) for every bit j (includes 0 and NaR)", |i| i as u128), |k| {
            let i = k as u64;
            let (variant, r) = (i & 3, i >> 2);
            let fmt = |s: String| s.bytes().fold(s.len() as u128, |h, b| h.wrapping_mul(131) ^ b as u128);
            call(guard(|| {
                if r < 32 {
                    let b = 1u32 << r;
                    let x = match variant { 0 => b, 1 => b.wrapping_neg(), 2 => b.wrapping_sub(1), _ => b.wrapping_sub(1).wrapping_neg() };
                    fmt(format!("{}", softposit::Q8E0::from_bits(x)))
                } else if r < 160 {
                    let b = 1u128 << (r - 32);
                    let x = match variant { 0 => b, 1 => b.wrapping_neg(), 2 => b.wrapping_sub(1), _ => b.wrapping_sub(1).wrapping_neg() };
                    fmt(format!("{}", softposit::Q16E1::from_bits(x)))
                } else {
                    let j = (r - 160) as usize;
                    // big-endian limbs
                    let mut l = [0u64; 8];
                    l[7 - j / 64] = 1u64 << (j % 64);
                    let sub1 = |mut l: [u64; 8]| { for t in (0..8).rev() { let (v, br) = l[t].overflowing_sub(1); l[t] = v; if !br { break; } } l };
                    let neg = |l: [u64; 8]| { let mut c = true; let mut o = [0u64; 8]; for t in (0..8).rev() { let (v, c2) = (!l[t]).overflowing_add(c as u64); o[t] = v; c = c2; } o };
                    let x = match variant { 0 => l, 1 => neg(l), 2 => sub1(l), _ => neg(sub1(l)) };
                    fmt(format!("{}", softposit::Q32E2::from_bits(x)))
                }
            }))
        }));
    }
    // entry points that are generic over the *source type*: a foreign ToPrimitive implementation may answer None to any
    // of its conversions (num-complex, big integers out of range do); every combination of answers must come back as a
    // value or None, never as an unwind
    v.push(CellDef::new("C16", "generic/total/NumCast::from(foreign source)", Space::func(3 * 256, "3 posit types x every combination of Some/None answers of a foreign ToPrimitive source (i64, u64, f64, f32, i128, u128, isize, usize)", |i| i as u128), |k| {
        let w = Foreign((k % 256) as u8);
        call(guard(|| match k / 256 {
            0 => <P8E0 as num_traits::NumCast>::from(w).map_or(0x1_0000_0000, |p| p.to_bits() as u128),
            1 => <P16E1 as num_traits::NumCast>::from(w).map_or(0x1_0000_0000, |p| p.to_bits() as u128),
            _ => <P32E2 as num_traits::NumCast>::from(w).map_or(0x1_0000_0000, |p| p.to_bits() as u128),
        }))
    }));
    v
}

/// a ToPrimitive source whose eight conversions answer Some(3) / None according to the bits of its field
#[derive(Clone, Copy)]
struct Foreign(u8);
impl num_traits::ToPrimitive for Foreign {
    fn to_i64(&self) -> Option<i64> {
        (self.0 & 1 != 0).then_some(3)
    }
    fn to_u64(&self) -> Option<u64> {
        (self.0 & 2 != 0).then_some(3)
    }
    fn to_f64(&self) -> Option<f64> {
        (self.0 & 4 != 0).then_some(3.0)
    }
    fn to_f32(&self) -> Option<f32> {
        (self.0 & 8 != 0).then_some(3.0)
    }
    fn to_i128(&self) -> Option<i128> {
        (self.0 & 16 != 0).then_some(3)
    }
    fn to_u128(&self) -> Option<u128> {
        (self.0 & 32 != 0).then_some(3)
    }
    fn to_isize(&self) -> Option<isize> {
        (self.0 & 64 != 0).then_some(3)
    }
    fn to_usize(&self) -> Option<usize> {
        (self.0 & 128 != 0).then_some(3)
    }
}

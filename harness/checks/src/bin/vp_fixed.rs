//! Engine for the fixed-width types P8E0, P16E1, P32E2.
use softposit::{P16E1, P32E2, P8E0};
use vpchecks::fixed::*;
use vpcore::{run_cells, CellDef, Cfg, Extra, Report};

fn per_type(f8: fn(bool) -> Vec<CellDef>, f16: fn(bool) -> Vec<CellDef>, f32: fn(bool) -> Vec<CellDef>, t: bool) -> Vec<CellDef> {
    let mut v = f8(t);
    v.extend(f16(t));
    v.extend(f32(t));
    v
}

pub fn cells(prop: &str, t: bool, dir: &str) -> Vec<CellDef> {
    match prop {
        "C11" => vpchecks::elem::c11(dir),
        "C17" => {
            let mut v = vpchecks::spell::c17_p8(t);
            v.extend(vpchecks::spell::c17_p16(t));
            v.extend(vpchecks::spell::c17_p32(t));
            v.extend(vpchecks::spell::c17_types());
            v.extend(vpchecks::spell::c17_conv(t));
            v
        }
        "C01" => per_type(c01::<P8E0>, c01::<P16E1>, c01::<P32E2>, t),
        "C02" => per_type(c02::<P8E0>, c02::<P16E1>, c02::<P32E2>, t),
        "C03" => per_type(c03::<P8E0>, c03::<P16E1>, c03::<P32E2>, t),
        "C05" => per_type(c05::<P8E0>, c05::<P16E1>, c05::<P32E2>, t),
        "C06" => per_type(c06::<P8E0>, c06::<P16E1>, c06::<P32E2>, t),
        "C07" => per_type(c07::<P8E0>, c07::<P16E1>, c07::<P32E2>, t),
        "C08" => c08(t),
        "C09" => per_type(c09::<P8E0>, c09::<P16E1>, c09::<P32E2>, t),
        "C10" => per_type(c10::<P8E0>, c10::<P16E1>, c10::<P32E2>, t),
        _ => vec![],
    }
}

fn main() {
    let cfg = Cfg::from_args();
    let mut extra = Extra::default();
    let stubs: std::collections::BTreeSet<String> = cfg.extra.get("stubs").map(|s| s.split(',').map(|x| x.to_string()).collect()).unwrap_or_default();
    let cells = if cfg.prop == "C16" {
        vpchecks::total::c16(cfg.thorough(), &stubs)
    } else if cfg.prop == "C19" { vpchecks::rng::c19(cfg.thorough(), &mut extra) } else { cells(&cfg.prop, cfg.thorough(), &cfg.verif_dir) };
    if cells.is_empty() {
        eprintln!("vp_fixed: no cells for property {}", cfg.prop);
        std::process::exit(2);
    }
    let rep = Report {
        rule: "every case of every listed cell is executed on the real code and compared with the exact reference model; a case is non-trivial when the exact result needed rounding, saturation, a special value or exact cancellation (per cell)".into(),
        assumptions: vec!["rustc/LLVM compile the oracle and the crate correctly".into(), "the reference model (vp_oracle), cross-checked against an independent Python model at setup".into()],
        bound: format!("all cells complete ({} tier)", cfg.tier),
    };
    std::process::exit(run_cells(&cfg, cells, extra, rep));
}

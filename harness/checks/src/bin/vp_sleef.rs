//! Engine for C15: P32E2 elementary functions stay within their stated ULP bound on their documented domain.
//!
//! Oracle: |enc(result) - enc(correctly rounded)| <= bound. Stage 1 takes glibc's f64 value y with the
//! enclosure [y(1-2^-50), y(1+2^-50)] (libm's documented error is far below that), rounds both ends with the
//! exact posit oracle and accepts / rejects when the verdict is the same for both ends. Otherwise stage 2 asks
//! mpmath (300 bits, independent Python posit model) for the correctly rounded value of that one input.
//! No verdict is ever taken from an ambiguous stage-1 case.
use softposit::P32E2;
use std::io::{BufRead, BufReader, Write};
use std::process::{Child, ChildStdin, ChildStdout, Command, Stdio};
use std::sync::atomic::{AtomicU64, Ordering};
use std::sync::{Arc, Mutex};
use vpcore::alpha::*;
use vpcore::refs;
use vpcore::{guard, k2, run_cells, CellDef, Cfg, Extra, Out, Report, Space};

struct Py {
    _child: Child,
    inp: ChildStdin,
    out: BufReader<ChildStdout>,
}

struct Resolver {
    py: Mutex<Option<Py>>,
    dir: String,
    asked: AtomicU64,
    failed: AtomicU64,
}

impl Resolver {
    fn ask(&self, f: &str, x: u32, y: Option<u32>) -> Option<u32> {
        self.asked.fetch_add(1, Ordering::Relaxed);
        let mut g = self.py.lock().unwrap();
        if g.is_none() {
            let mut c = Command::new("python3-vt")
                .arg(format!("{}/scripts/c15_resolve.py", self.dir))
                .stdin(Stdio::piped())
                .stdout(Stdio::piped())
                .stderr(Stdio::null())
                .spawn()
                .ok()?;
            let inp = c.stdin.take()?;
            let out = BufReader::new(c.stdout.take()?);
            *g = Some(Py { _child: c, inp, out });
        }
        let py = g.as_mut().unwrap();
        let line = match y {
            Some(y) => format!("{} {:x} {:x}\n", f, x, y),
            None => format!("{} {:x}\n", f, x),
        };
        if py.inp.write_all(line.as_bytes()).is_err() || py.inp.flush().is_err() {
            self.failed.fetch_add(1, Ordering::Relaxed);
            return None;
        }
        let mut resp = String::new();
        if py.out.read_line(&mut resp).is_err() {
            self.failed.fetch_add(1, Ordering::Relaxed);
            return None;
        }
        let r = resp.trim();
        if r == "nar" {
            return Some(0x8000_0000);
        }
        match u32::from_str_radix(r, 16) {
            Ok(v) => Some(v),
            Err(_) => {
                self.failed.fetch_add(1, Ordering::Relaxed);
                None
            }
        }
    }
}

const EPS: f64 = 8.881784197001252e-16; // 2^-50

/// maintenance aid (not part of any check): with VERIF_C15_DUMP_ATBOUND=<file> every evaluated input whose result may
/// be as far from the correctly rounded value as the bound allows is appended to <file>; used to refresh
/// known_findings/C15_hard_inputs.txt from a complete sweep
fn at_bound(name: &str, x: u32, x2: Option<u32>, r: u32, y: f64) {
    use std::io::Write;
    static F: std::sync::OnceLock<Option<Mutex<std::io::BufWriter<std::fs::File>>>> = std::sync::OnceLock::new();
    let f = F.get_or_init(|| std::env::var("VERIF_C15_DUMP_ATBOUND").ok().and_then(|p| std::fs::File::create(p).ok()).map(|f| Mutex::new(std::io::BufWriter::new(f))));
    if let Some(m) = f {
        let mut w = m.lock().unwrap();
        // real error in units of the result's spacing (f64 reference: good to 1e-8 of a unit), for ranking
        let rv = P32E2::from_bits(r).to_f64();
        let sp = (P32E2::from_bits(r.wrapping_add(1)).to_f64() - rv).abs();
        let e = (rv - y).abs() / sp;
        let _ = match x2 {
            Some(y2) => writeln!(w, "{name} {x:#010x} {y2:#010x} {e:.4}"),
            None => writeln!(w, "{name} {x:#010x} {e:.4}"),
        };
    }
}

/// verdict for one evaluation: result bits r against the f64 reference value y
fn judge(res: &Resolver, name: &str, bound: i64, r: u32, y: f64, x: u32, x2: Option<u32>) -> (bool, u32) {
    if y.is_nan() {
        // the reference itself is undefined: the real function has no value here
        return (r == 0x8000_0000, 0x8000_0000);
    }
    let (a, b) = if y == 0.0 || y.is_infinite() { (y, y) } else { (y * (1.0 - EPS), y * (1.0 + EPS)) };
    let ca = refs::from_f64(32, 2, a).0 as i32 as i64;
    let cb = refs::from_f64(32, 2, b).0 as i32 as i64;
    let (lo, hi) = (ca.min(cb), ca.max(cb));
    let ri = r as i32 as i64;
    let dmax = (ri - lo).abs().max((ri - hi).abs());
    let dmin = if ri < lo {
        lo - ri
    } else if ri > hi {
        ri - hi
    } else {
        0
    };
    if r == 0x8000_0000 {
        return (false, lo as i32 as u32);
    }
    if dmax <= bound {
        if dmin == bound {
            at_bound(name, x, x2, r, y);
        }
        return (true, lo as i32 as u32);
    }
    if dmin > bound {
        return (false, lo as i32 as u32);
    }
    // ambiguous: stage 2
    match res.ask(name, x, x2) {
        Some(c) => {
            if (ri - (c as i32 as i64)).abs() >= bound {
                at_bound(name, x, x2, r, y);
            }
            (((ri - (c as i32 as i64)).abs() <= bound), c)
        }
        None => (false, 0xdead_beef),
    }
}

#[derive(Clone, Copy)]
struct Un {
    name: &'static str,
    f: fn(P32E2) -> P32E2,
    r: fn(f64) -> f64,
    bound: i64,
    /// inclusive domain as signed pattern range
    lo: i32,
    hi: i32,
}

fn cbrt_ref(x: f64) -> f64 {
    x.cbrt()
}

fn unaries() -> Vec<Un> {
    let trig = 0x7d40_0000 - 1;
    let all = (i32::MIN + 1, i32::MAX);
    vec![
        Un { name: "sin", f: |p| p.sin(), r: f64::sin, bound: 2, lo: -trig, hi: trig },
        Un { name: "cos", f: |p| p.cos(), r: f64::cos, bound: 2, lo: -trig, hi: trig },
        Un { name: "tan", f: |p| p.tan(), r: f64::tan, bound: 3, lo: -trig, hi: trig },
        Un { name: "asin", f: |p| p.asin(), r: f64::asin, bound: 3, lo: -0x4000_0000, hi: 0x4000_0000 },
        Un { name: "acos", f: |p| p.acos(), r: f64::acos, bound: 2, lo: -0x4000_0000, hi: 0x4000_0000 },
        Un { name: "atan", f: |p| p.atan(), r: f64::atan, bound: 3, lo: all.0, hi: all.1 },
        Un { name: "ln", f: |p| p.ln(), r: f64::ln, bound: 2, lo: 1, hi: i32::MAX },
        Un { name: "log2", f: |p| p.log2(), r: f64::log2, bound: 3, lo: 1, hi: i32::MAX },
        Un { name: "exp", f: |p| p.exp(), r: f64::exp, bound: 1, lo: -0x6a80_0000, hi: 0x6a80_0000 },
        Un { name: "exp2", f: |p| p.exp2(), r: f64::exp2, bound: 1, lo: -0x6cb0_0000, hi: 0x6c00_0000 - 1 },
        Un { name: "sinh", f: |p| p.sinh(), r: f64::sinh, bound: 4, lo: -0x6980_0000, hi: 0x6980_0000 },
        Un { name: "cosh", f: |p| p.cosh(), r: f64::cosh, bound: 2, lo: -0x6980_0000, hi: 0x6980_0000 },
        Un { name: "cbrt", f: |p| p.cbrt(), r: cbrt_ref, bound: 4, lo: all.0, hi: all.1 },
    ]
}

fn un_case(res: &Resolver, u: &Un, key: u128, ambiguous: &AtomicU64) -> Out {
    let x = key as u32;
    let xi = x as i32;
    let p = P32E2::from_bits(x);
    if x == 0x8000_0000 {
        return Out::cmp(guard(|| (u.f)(p).to_bits() as u128), 0x8000_0000, true);
    }
    if xi < u.lo || xi > u.hi {
        // outside the supported domain: only the NaR guards of the property are checked
        let must_nar = match u.name {
            "ln" | "log2" => xi <= 0,
            "asin" | "acos" => true,
            _ => false,
        };
        if must_nar {
            return Out::cmp(guard(|| (u.f)(p).to_bits() as u128), 0x8000_0000, true);
        }
        return Out::skip();
    }
    let xf = p.to_f64();
    let y = (u.r)(xf);
    let got = guard(|| (u.f)(p).to_bits());
    match got {
        None => Out::cmp(None, 0, true),
        Some(r) => {
            let before = res.asked.load(Ordering::Relaxed);
            let (ok, want) = judge(res, u.name, u.bound, r, y, x, None);
            if res.asked.load(Ordering::Relaxed) != before {
                ambiguous.fetch_add(1, Ordering::Relaxed);
            }
            Out { ok, nt: y != 0.0, got: r as u128, want: want as u128, ops: 1, panicked: false }
        }
    }
}

fn near(points: impl Iterator<Item = f64>, w: i32) -> Vec<u32> {
    let mut v = vec![];
    for y in points {
        for s in [1.0, -1.0] {
            let c = refs::from_f64(32, 2, s * y).0 as i32;
            for d in -w..=w {
                v.push(c.wrapping_add(d) as u32);
            }
        }
    }
    v.sort();
    v.dedup();
    v
}

fn main() {
    let cfg = Cfg::from_args();
    let t = cfg.thorough();
    if cfg.prop != "C15" {
        eprintln!("vp_sleef serves C15 only");
        std::process::exit(2);
    }
    // thorough = complete 2^32 sweep of every unary function, unless VERIF_C15_LATTICE=1 (set by the C16 thorough pass)
    let full = t && !std::env::var("VERIF_C15_LATTICE").map(|v| v == "1").unwrap_or(false);
    let res = Arc::new(Resolver { py: Mutex::new(None), dir: cfg.verif_dir.clone(), asked: AtomicU64::new(0), failed: AtomicU64::new(0) });
    let amb = Arc::new(AtomicU64::new(0));
    let mut cells: Vec<CellDef> = vec![];
    let w = if t { 64 } else { 8 };
    for u in unaries() {
        let low = if t { 5 } else { 10 };
        let sp = if full && t {
            Space::all(32)
        } else {
            Space::func(lattice_len(32, low), format!("lattice: every value of the top {} bits x low menu (domain-filtered in the cell)", 32 - low), move |i| lattice_key(32, low, i) as u128)
        };
        {
            let (r2, a2) = (res.clone(), amb.clone());
            cells.push(CellDef::new("C15", format!("P32E2/{}", u.name), sp, move |k| un_case(&r2, &u, k, &a2)));
        }
        // neighbourhoods of the points where the argument reduction / regime changes
        let pts: Vec<u32> = match u.name {
            "sin" | "cos" | "tan" => {
                let kmax = 250_000; // every multiple of pi/2 below 393216 (the reduction's round() has its ties at the odd ones)
                let mut v = near((1..=kmax).map(|k| k as f64 * std::f64::consts::FRAC_PI_2), w);
                v.extend(near((1..=4000).map(|k| k as f64 * std::f64::consts::FRAC_PI_4 / 8.0), 2));
                v.extend(near([393216.0f64, 0.0].into_iter(), w.max(64)));
                v
            }
            "exp" | "sinh" | "cosh" => {
                // multiples of ln 2 (reduced argument ~ 0) and of ln 2 / 2 (the odd ones are the ties of the reduction's round())
                let mut v = near((0..=320).map(|k| k as f64 * std::f64::consts::LN_2 / 2.0), w);
                v.extend(near((0..=110).map(|k| k as f64), w));
                v.extend(near((0..=110).map(|k| k as f64 + 0.5), w));
                v.extend(near([104.0, 88.0, 0.0].into_iter(), w.max(64)));
                v
            }
            "exp2" => {
                let mut v = near((0..=300).map(|k| k as f64 * 0.5), w);
                v.extend(near([150.0, 128.0, 120.0, 0.0].into_iter(), w.max(64)));
                v
            }
            "asin" | "acos" => near([1.0, 0.5, 0.0, std::f64::consts::FRAC_1_SQRT_2, 0.75].into_iter(), w.max(256)),
            _ => {
                // every power of two (regime / exponent change), 1, 0
                near((-120..=120).map(|k| (2.0f64).powi(k)).chain([0.0, 3.0, 1.5].into_iter()), w)
            }
        };
        let mut pts = pts;
        pts.sort();
        pts.dedup();
        let (r2, a2) = (res.clone(), amb.clone());
        cells.push(CellDef::new("C15", format!("P32E2/{}#near", u.name), Space::list32(pts, format!("+-{} encodings around the reduction / regime boundaries and the domain ends", w)), move |k| un_case(&r2, &u, k, &a2)));
    }
    // regression inputs from complete sweeps (known_findings/C15_hard_inputs.txt), with +-2 neighbours
    if let Ok(txt) = std::fs::read_to_string(format!("{}/known_findings/C15_hard_inputs.txt", cfg.verif_dir)) {
        for u in unaries() {
            let mut l: Vec<u32> = vec![];
            for line in txt.lines() {
                let mut it = line.split_whitespace();
                if it.next() == Some(u.name) {
                    if let Some(k) = it.next().and_then(|h| u32::from_str_radix(h.trim_start_matches("0x"), 16).ok()) {
                        for d in -2i32..=2 {
                            l.push(k.wrapping_add(d as u32));
                        }
                    }
                }
            }
            if !l.is_empty() {
                l.sort();
                l.dedup();
                let (r2, a2) = (res.clone(), amb.clone());
                cells.push(CellDef::new("C15", format!("P32E2/{}#hard", u.name), Space::list32(l, "worst inputs found by complete 2^32 sweeps, +-2 encodings"), move |k| un_case(&r2, &u, k, &a2)));
            }
        }
    }
    // the hardest inputs of each function on the unchanged tree (inputs/c15_hard_<f>.bin, sorted u32 LE): the inputs whose
    // result is exactly as far from the correctly rounded value as the bound allows, ranked by their real error, from a
    // complete 2^32 sweep. A small perturbation of a kernel coefficient pushes some of them over the bound first.
    for u in unaries() {
        if let Ok(bytes) = std::fs::read(format!("{}/inputs/c15_hard_{}.bin", cfg.verif_dir, u.name)) {
            let l: Vec<u32> = bytes.chunks_exact(4).map(|c| u32::from_le_bytes([c[0], c[1], c[2], c[3]])).collect();
            if !l.is_empty() {
                let (r2, a2) = (res.clone(), amb.clone());
                let n = l.len();
                cells.push(CellDef::new("C15", format!("P32E2/{}#atbound", u.name), Space::list32(l, format!("{n} inputs at which the unchanged implementation is exactly at its bound (complete-sweep census: the largest real errors + an even spread)")), move |k| un_case(&r2, &u, k, &a2)));
            }
        }
    }
    // binary functions
    struct Bi {
        name: &'static str,
        f: fn(P32E2, P32E2) -> P32E2,
        r: fn(f64, f64) -> f64,
        bound: i64,
    }
    let bis = [
        Bi { name: "atan2", f: |a, b| a.atan2(b), r: f64::atan2, bound: 3 },
        Bi { name: "hypot", f: |a, b| a.hypot(b), r: f64::hypot, bound: 4 },
    ];
    for b in bis {
        let al = alphabet(32, 2, t);
        let (f, r, bound, name) = (b.f, b.r, b.bound, b.name);
        let mk = |res: Arc<Resolver>, amb: Arc<AtomicU64>| {
            move |k: u128| -> Out {
                let (x, y) = k2(k);
                let (px, py) = (P32E2::from_bits(x), P32E2::from_bits(y));
                if x == 0x8000_0000 || y == 0x8000_0000 {
                    return Out::cmp(guard(|| f(px, py).to_bits() as u128), 0x8000_0000, true);
                }
                if name == "atan2" && x == 0 && y == 0 {
                    return Out::skip(); // atan2(0,0) has no real value; not constrained
                }
                let yv = r(px.to_f64(), py.to_f64());
                match guard(|| f(px, py).to_bits()) {
                    None => Out::cmp(None, 0, true),
                    Some(g) => {
                        let before = res.asked.load(Ordering::Relaxed);
                        let (ok, want) = judge(&res, name, bound, g, yv, x, Some(y));
                        if res.asked.load(Ordering::Relaxed) != before {
                            amb.fetch_add(1, Ordering::Relaxed);
                        }
                        Out { ok, nt: true, got: g as u128, want: want as u128, ops: 1, panicked: false }
                    }
                }
            }
        };
        cells.push(CellDef::new("C15", format!("P32E2/{}", name), Space::prod2(al.clone(), al.clone(), if t { "A(32,2,rich)^2" } else { "A(32,2,coarse)^2" }), mk(res.clone(), amb.clone())));
        // near-diagonal and axis families: y = x displaced by -2..2 encodings, and small-ratio pairs
        let low = if t { 12 } else { 16 };
        let n = lattice_len(32, low);
        cells.push(CellDef::new(
            "C15",
            format!("P32E2/{}#diag", name),
            Space::func(n * 5, format!("x on the lattice (top {} bits), y = x displaced by -2..2 encodings", 32 - low), move |i| {
                let x = lattice_key(32, low, i / 5);
                let y = x.wrapping_add((i % 5) as u32).wrapping_sub(2);
                (x as u128) << 32 | y as u128
            }),
            mk(res.clone(), amb.clone()),
        ));
    }
    // powf on its stated range [0.5, 5)
    {
        let (lo, hi) = (0x3800_0000u32, 0x5200_0000u32);
        let g: u64 = cfg.extra.get("powgrid").and_then(|s| s.parse().ok()).unwrap_or(if t { 4096 } else { 768 });
        let step = ((hi - lo) as u64 / g) as u32;
        let (r2, a2) = (res.clone(), amb.clone());
        cells.push(CellDef::new(
            "C15",
            "P32E2/powf",
            Space::func(g * g * 3, format!("{g} x {g} grid over the patterns [0x38000000, 0x52000000) (0.5 <= x,y < 5), each with y displaced by -1, 0, 1 encodings"), move |i| {
                let j = i / 3;
                let x = lo + (j / g) as u32 * step;
                let y = (lo + (j % g) as u32 * step).wrapping_add((i % 3) as u32).wrapping_sub(1);
                (x as u128) << 32 | y as u128
            }),
            move |k| {
                let (x, y) = k2(k);
                let (px, py) = (P32E2::from_bits(x), P32E2::from_bits(y));
                let yv = px.to_f64().powf(py.to_f64());
                match guard(|| px.powf(py).to_bits()) {
                    None => Out::cmp(None, 0, true),
                    Some(gb) => {
                        let before = r2.asked.load(Ordering::Relaxed);
                        let (ok, want) = judge(&r2, "powf", 5, gb, yv, x, Some(y));
                        if r2.asked.load(Ordering::Relaxed) != before {
                            a2.fetch_add(1, Ordering::Relaxed);
                        }
                        Out { ok, nt: true, got: gb as u128, want: want as u128, ops: 1, panicked: false }
                    }
                }
            },
        ));
    }
    // the mirrored exponent range: x in [0.5, 5), y in -[0.5, 5) (x^-y = 1/x^y: the same |y ln x| as the stated range; larger
    // integer exponents are not judged: there the unchanged implementation itself exceeds 5 encodings)
    {
        let (lo, hi) = (0x3800_0000u32, 0x5200_0000u32);
        let g: u64 = if t { 4096 } else { 1024 };
        let step = ((hi - lo) as u64 / g) as u32;
        let (r2, a2) = (res.clone(), amb.clone());
        cells.push(CellDef::new("C15", "P32E2/powf#negexp", Space::func(g * g, format!("{g} x {g} grid: x in [0.5, 5), y in -[0.5, 5)"), move |i| {
            let x = lo + (i / g) as u32 * step;
            let y = (lo + (i % g) as u32 * step + 1).wrapping_neg();
            (x as u128) << 32 | y as u128
        }), move |k| {
            let (x, y) = k2(k);
            let (px, py) = (P32E2::from_bits(x), P32E2::from_bits(y));
            let yv = px.to_f64().powf(py.to_f64());
            match guard(|| px.powf(py).to_bits()) {
                None => Out::cmp(None, 0, true),
                Some(gb) => {
                    let before = r2.asked.load(Ordering::Relaxed);
                    let (ok, want) = judge(&r2, "powf", 5, gb, yv, x, Some(y));
                    if r2.asked.load(Ordering::Relaxed) != before { a2.fetch_add(1, Ordering::Relaxed); }
                    Out { ok, nt: true, got: gb as u128, want: want as u128, ops: 1, panicked: false }
                }
            }
        }));
    }
    // powf outside the positive quadrant: what the property fixes without an accuracy debate.
    //  * a negative base with a non-integer exponent is outside the real domain: NaR;
    //  * a negative base with an integer exponent n has the sign (-1)^n, is real and non-zero; only bases with |x| >= 1 and
    //    n > 0 (or |x| <= 1 and n < 0) are used, so that the exact value has magnitude >= 1 and a result within 5 encodings
    //    of the correctly rounded one cannot have the other sign;
    //  * for 1 <= n <= 4 (inside the stated [0.5, 5) range of the exponent) the magnitude is judged like the grid cells.
    {
        let (lo, hi) = (0x3800_0000u32, 0x5200_0000u32);
        let gx: u64 = if t { 2048 } else { 256 };
        let step = ((hi - lo) as u64 / gx) as u32;
        // integer exponents: small ones, 2^k and its odd/even neighbours for every k < 24, the largest odd integers
        let mut ints: Vec<i64> = (1..=20).collect();
        for k in 2..=23 {
            for d in [-3i64, -2, -1, 0, 1, 2, 3] {
                ints.push((1i64 << k) + d);
            }
        }
        ints.extend([4194305, 5000001, 6291459, 8388605, 8388606, 8388607, 8388608, 8388610, 16777216]);
        ints.sort();
        ints.dedup();
        let ys: Vec<u32> = ints.iter().flat_map(|&n| [refs::from_int(32, 2, n as i128), refs::from_int(32, 2, -(n as i128))]).filter(|r| !r.1).map(|r| r.0).collect();
        // non-integer exponents: every integer above displaced by one encoding (when that is not an integer), halves
        let mut nonint: Vec<u32> = vec![];
        for &y in &ys {
            for d in [1u32, u32::MAX] {
                let q = y.wrapping_add(d);
                if let Some(v) = vp_oracle::decode(32, 2, q) {
                    if !vp_oracle::is_int(v) {
                        nonint.push(q);
                    }
                }
            }
        }
        nonint.extend([0x3800_0000u32, 0x4400_0000, 0x2000_0000, 0x5900_0000]); // 0.5, 1.5, 2^-4.., 
        nonint.retain(|&q| vp_oracle::decode(32, 2, q).map_or(false, |v| !vp_oracle::is_int(v)));
        nonint.sort();
        nonint.dedup();
        let (ny, nn) = (ys.len() as u64, nonint.len() as u64);
        let (r2, a2) = (res.clone(), amb.clone());
        cells.push(CellDef::new(
            "C15",
            "P32E2/powf#negbase",
            Space::func((gx + 12) * (ny + nn), format!("negative bases -x, x on a {gx}-point grid over [0.5, 5) and 12 bases at and next to 1, 2, 1/2 x ({ny} integer exponents: 1..20, 2^k +-3 for k < 24, the largest odd integers, both signs; {nn} non-integer exponents)"), move |i| {
                const NEAR: [u32; 12] = [0x4000_0000, 0x4000_0001, 0x3fff_ffff, 0x4000_0080, 0x3fff_ff00, 0x4002_0000, 0x3ffe_0000, 0x4800_0000, 0x3800_0000, 0x4000_0002, 0x4400_0000, 0x4000_1000];
                let xi = i / (ny + nn);
                let x = (if xi < gx { lo + xi as u32 * step } else { NEAR[(xi - gx) as usize] }).wrapping_neg();
                let j = i % (ny + nn);
                let y = if j < ny { ys[j as usize] } else { nonint[(j - ny) as usize] };
                (x as u128) << 32 | y as u128
            }),
            move |k| {
                let (x, y) = k2(k);
                let (px, py) = (P32E2::from_bits(x), P32E2::from_bits(y));
                let yd = vp_oracle::decode(32, 2, y).unwrap();
                let got = guard(|| px.powf(py).to_bits());
                let Some(gb) = got else { return Out::cmp(None, 0, true) };
                if !vp_oracle::is_int(yd) {
                    return Out::cmp(Some(gb as u128), 0x8000_0000, true);
                }
                let n = vp_oracle::floor_int(yd);
                let ax = px.to_f64().abs();
                // keep the exact magnitude >= 1
                if (ax >= 1.0) != (n > 0) && ax != 1.0 {
                    return Out::skip();
                }
                // stay where the exact magnitude is far from the saturation range (the accuracy of huge powers is outside
                // the function's stated range and not judged here)
                if (n as f64 * ax.log2()).abs() > 100.0 {
                    return Out::skip();
                }
                let neg = n & 1 == 1;
                if (1..=4).contains(&n) {
                    let yv = px.to_f64().powi(n as i32);
                    let before = r2.asked.load(Ordering::Relaxed);
                    let (ok, want) = judge(&r2, "powf", 5, gb, yv, x, Some(y));
                    if r2.asked.load(Ordering::Relaxed) != before {
                        a2.fetch_add(1, Ordering::Relaxed);
                    }
                    return Out { ok, nt: true, got: gb as u128, want: want as u128, ops: 1, panicked: false };
                }
                // sign, realness and magnitude >= 1 - 5 encodings only
                let real = gb != 0x8000_0000 && gb != 0;
                let sign_ok = ((gb as i32) < 0) == neg;
                let mag = if (gb as i32) < 0 { gb.wrapping_neg() } else { gb };
                let ok = real && sign_ok && mag >= 0x4000_0000 - 5;
                Out { ok, nt: true, got: gb as u128, want: if neg { 0xc000_0000 } else { 0x4000_0000 }, ops: 1, panicked: false }
            },
        ));
        // the fixed points the implementation documents: x^0 = 1, 1^y = 1, 0^y
        let al = alphabet(32, 2, false);
        cells.push(CellDef::new("C15", "P32E2/powf#identities", Space::list32(al, "A(32,2,coarse): pow(a, 0) = 1, pow(1, a) = 1, pow(0, a) = 0 for a > 0; pow(a, NaR) = pow(NaR, a) = NaR for every a"), move |k| {
            let a = k as u32;
            let pa = P32E2::from_bits(a);
            let got = guard(|| {
                let z = P32E2::from_bits(0);
                let one = P32E2::from_bits(0x4000_0000);
                let nar = P32E2::from_bits(0x8000_0000);
                let mut bad = 0u128;
                if a != 0x8000_0000 {
                    bad |= (pa.powf(z).to_bits() != 0x4000_0000) as u128;
                    bad |= ((one.powf(pa).to_bits() != 0x4000_0000) as u128) << 1;
                    if (a as i32) > 0 {
                        bad |= ((z.powf(pa).to_bits() != 0) as u128) << 2;
                    }
                    // NaR in, NaR out — also for the operands that otherwise short-cut (1^y, x^0)
                    bad |= ((pa.powf(nar).to_bits() != 0x8000_0000) as u128) << 3;
                    bad |= ((nar.powf(pa).to_bits() != 0x8000_0000) as u128) << 4;
                }
                bad
            });
            Out::cmp(got, 0, true).ops(5)
        }));
    }
    if let Ok(txt) = std::fs::read_to_string(format!("{}/known_findings/C15_hard_inputs.txt", cfg.verif_dir)) {
        let mut l: Vec<u128> = vec![];
        for line in txt.lines() {
            let mut it = line.split_whitespace();
            if it.next() == Some("powf") {
                let x = it.next().and_then(|h| u32::from_str_radix(h.trim_start_matches("0x"), 16).ok());
                let y = it.next().and_then(|h| u32::from_str_radix(h.trim_start_matches("0x"), 16).ok());
                if let (Some(x), Some(y)) = (x, y) {
                    for d in -1i32..=1 {
                        l.push((x as u128) << 32 | y.wrapping_add(d as u32) as u128);
                    }
                }
            }
        }
        if !l.is_empty() {
            l.sort();
            l.dedup();
            let (r2, a2) = (res.clone(), amb.clone());
            cells.push(CellDef::new("C15", "P32E2/powf#hard", Space::list(l, "worst pairs found by dense grid scans, y +-1 encoding"), move |k| {
                let (x, y) = k2(k);
                let (px, py) = (P32E2::from_bits(x), P32E2::from_bits(y));
                let yv = px.to_f64().powf(py.to_f64());
                match guard(|| px.powf(py).to_bits()) {
                    None => Out::cmp(None, 0, true),
                    Some(gb) => {
                        let before = r2.asked.load(Ordering::Relaxed);
                        let (ok, want) = judge(&r2, "powf", 5, gb, yv, x, Some(y));
                        if r2.asked.load(Ordering::Relaxed) != before {
                            a2.fetch_add(1, Ordering::Relaxed);
                        }
                        Out { ok, nt: true, got: gb as u128, want: want as u128, ops: 1, panicked: false }
                    }
                }
            }));
        }
    }
    let mut extra = Extra::default();
    let (r3, a3) = (res.clone(), amb.clone());
    extra.late_notes.push(Box::new(move || {
        format!(
            "stage 2 (mpmath) was consulted for {} ambiguous stage-1 cases ({} requests, {} unanswered)",
            a3.load(Ordering::Relaxed),
            r3.asked.load(Ordering::Relaxed),
            r3.failed.load(Ordering::Relaxed)
        )
    }));
    let rep = Report {
        rule: "every lattice / neighbourhood / alphabet-product input inside the function's documented domain is evaluated on the real code; the encoding distance to the correctly rounded value must be within the stated bound (stage 1: f64 libm enclosure decided by the exact posit oracle; stage 2: mpmath for ambiguous cases); NaR in and out-of-domain arguments must give NaR; non-trivial = the reference value is non-zero".into(),
        assumptions: vec![
            "glibc libm's f64 results are within 2^-50 relative of the true value (its documented error is < 2 ulp = 2^-51); used only when both ends of the enclosure give the same verdict".into(),
            "mpmath at 300 bits and the Python posit model for the ambiguous cases".into(),
            "domains and bounds as stated by the crate (its own test ranges): |x| < 393216 for sin/cos/tan, [-1,1] for asin/acos, x > 0 for ln/log2, |x| <= 104 for exp, [-150,128) for exp2, |x| <= 88 for sinh/cosh, [0.5,5) for powf".into(),
        ],
        bound: format!("all cells complete ({} tier{})", cfg.tier, if full { ": complete 2^32 sweep per unary function" } else { "" }),
    };
    let rc = run_cells(&cfg, cells, extra, rep);
    if res.failed.load(Ordering::Relaxed) > 0 && rc == 0 {
        eprintln!("C15: stage 2 could not be consulted for some ambiguous cases - machinery error");
        std::process::exit(2);
    }
    std::process::exit(rc);
}

//! Engine for the generic-width types PxE1<N>, PxE2<N>, N = 2..=32.
use softposit::{PxE1, PxE2};
use vpchecks::px::*;
use vpcore::{run_cells, CellDef, Cfg, Extra, Report};

macro_rules! all_n {
    ($v:ident, $f:ident, $t:expr, $($n:literal),*) => {$(
        $v.extend($f::<PxE2<$n>>($t));
        $v.extend($f::<PxE1<$n>>($t));
    )*};
}

fn quire_states() -> std::sync::Arc<Vec<[u64; 8]>> {
    // the C04 state alphabet for Q32E2: 0, +-2^j and neighbours, limb straddles, range ends, NaR
    use vp_oracle::W512;
    let one = W512([1, 0, 0, 0, 0, 0, 0, 0]);
    let mut v = vec![W512::ZERO, one, one.neg()];
    for j in 0..511u32 {
        let p = W512::from_shifted(1, j).unwrap();
        v.extend([p, p.neg(), p.sub(one), p.neg().add(one)]);
        if j >= 2 {
            let h = W512::from_shifted(1, j / 2).unwrap();
            v.extend([p.add(h), p.sub(h).neg()]);
        }
        if j >= 3 {
            // tie + one far bit: leading bit, a guard bit d1 places below it, and a lone sticky bit d2 places
            // below the leading bit (just below the guard, around the 64-bit window edge, at the very bottom)
            for d1 in 1..=31u32.min(j) {
                let g = W512::from_shifted(1, j - d1).unwrap();
                let base = p.add(g);
                v.push(base);
                v.push(base.neg());
                for d2 in [d1 + 1, d1 + 2, 33, 34, 62, 63, 64, 65, 66, 96, 127, 128, 129, j] {
                    if d2 > d1 && d2 <= j {
                        let t = W512::from_shifted(1, j - d2).unwrap();
                        v.push(base.add(t));
                        v.push(base.add(t).neg());
                        // with an odd kept fraction as well
                        if d1 >= 2 {
                            let odd = W512::from_shifted(1, j - d1 + 1).unwrap();
                            v.push(base.add(odd).add(t));
                        }
                        // two far bits at the same offset of different 64-bit words (a sticky fold that is not an OR loses them)
                        for gap in [64u32, 128, 65] {
                            if d2 + gap <= j && d1 % 3 == 1 {
                                let t2 = W512::from_shifted(1, j - d2 - gap).unwrap();
                                v.push(base.add(t).add(t2));
                                v.push(base.add(t).add(t2).neg());
                            }
                        }
                    }
                }
            }
        }
        if j >= 30 {
            // a guard/sticky pattern 27..33 bits below the leading bit
            for d in [27u32, 28, 29, 30, 31, 32, 33] {
                let g = W512::from_shifted(1, j - d.min(j)).unwrap();
                v.extend([p.add(g), p.add(g).add(one), p.add(g).sub(one)]);
            }
        }
    }
    // unstructured multi-word states: every bit length x 8 fixed pseudo-random fills, both signs
    let mut st: u64 = 0x2545_F491_4F6C_DD1D;
    for l in 1..511u32 {
        for _ in 0..8 {
            let mut limbs = [0u64; 8];
            for x in limbs.iter_mut() {
                st = st.wrapping_mul(6364136223846793005).wrapping_add(1442695040888963407);
                *x = st ^ (st >> 29) ^ (st << 35);
            }
            let top = (l - 1) as usize;
            for (k, x) in limbs.iter_mut().enumerate() {
                if k > top / 64 {
                    *x = 0;
                } else if k == top / 64 {
                    if top % 64 < 63 {
                        *x &= (1u64 << (top % 64 + 1)) - 1;
                    }
                    *x |= 1u64 << (top % 64);
                }
            }
            let w = W512(limbs);
            v.push(w);
            v.push(w.neg());
        }
    }
    let mut out: Vec<[u64; 8]> = v.into_iter().map(|w| w.to_be()).collect();
    out.push([0x8000_0000_0000_0000, 0, 0, 0, 0, 0, 0, 0]);
    out.sort();
    out.dedup();
    std::sync::Arc::new(out)
}

fn main() {
    let cfg = Cfg::from_args();
    let t = cfg.thorough();
    if t {
        std::env::set_var("VERIF_TIER_T", "1");
    }
    let mut cells: Vec<CellDef> = vec![];
    match cfg.prop.as_str() {
        "C13" => {
            all_n!(cells, c13, t, 2, 3, 4, 5, 6, 7, 8, 9, 10, 11, 12, 13, 14, 15, 16, 17, 18, 19, 20, 21, 22, 23, 24, 25, 26, 27, 28, 29, 30, 31, 32);
            cells.extend(c13_bindings(t));
        }
        "C10" => {
            all_n!(cells, c10, t, 2, 3, 4, 5, 6, 7, 8, 9, 10, 11, 12, 13, 14, 15, 16, 17, 18, 19, 20, 21, 22, 23, 24, 25, 26, 27, 28, 29, 30, 31, 32);
        }
        "C14" => {
            all_n!(cells, c14, t, 2, 3, 4, 5, 6, 7, 8, 9, 10, 11, 12, 13, 14, 15, 16, 17, 18, 19, 20, 21, 22, 23, 24, 25, 26, 27, 28, 29, 30, 31, 32);
            let qs = quire_states();
            macro_rules! q { ($($n:literal),*) => {$( cells.extend(c14_quire::<PxE2<$n>>(qs.clone())); )*}; }
            q!(2, 3, 4, 5, 6, 7, 8, 9, 10, 11, 12, 13, 14, 15, 16, 17, 18, 19, 20, 21, 22, 23, 24, 25, 26, 27, 28, 29, 30, 31, 32);
            cells.extend(vpchecks::pxx::cells());
        }
        "C04" | "C12" | "C17" => {
            // PxE2<N> as a client of the Q32E2 accumulator
            let want = cfg.prop.clone();
            macro_rules! q { ($($n:literal),*) => {$( cells.extend(vpchecks::pxq::cells::<$n>(t, &want)); )*}; }
            q!(2, 3, 4, 5, 6, 7, 8, 9, 10, 11, 12, 13, 14, 15, 16, 17, 18, 19, 20, 21, 22, 23, 24, 25, 26, 27, 28, 29, 30, 31, 32);
        }
        p => {
            eprintln!("vp_px: no cells for property {p}");
            std::process::exit(2);
        }
    }
    let rep = Report {
        rule: "every case of every listed cell (one cell per type, width N and operation) is executed on the real code and compared with the exact reference model at that (N, es), including the requirement that the low 32-N bits of a generic result are zero; non-trivial = the exact result needed rounding, saturation or a special value".into(),
        assumptions: vec!["rustc/LLVM compile the oracle and the crate correctly".into(), "the reference model (vp_oracle)".into()],
        bound: format!("all cells complete ({} tier), widths N = 2..=32, es in {{1,2}}", cfg.tier),
    };
    std::process::exit(run_cells(&cfg, cells, Extra::default(), rep));
}

//! C17: all spellings of one operation agree (differential: every spelling's bits = the inherent method's bits;
//! C01-C12 tie the inherent methods to the oracle). A spelling and its inherent counterpart that BOTH unwind
//! (whole-body todo!() stubs) agree; one unwinding alone is a disagreement.
use crate::fixed::{pairs, triples, unary};
use crate::fx::Fx;
use num_traits::{Bounded, Float, FloatConst, FromPrimitive, Num, NumCast, One, Signed, ToPrimitive, Zero};
use softposit::{MathConsts, P16E1, P32E2, P8E0};
use vpcore::alpha::*;
use vpcore::{guard, k2, k3, CellDef, Out, Space};

/// compare two computations that may unwind; returns a 1 bit when they disagree
fn agree<R: PartialEq>(a: impl FnOnce() -> R, b: impl FnOnce() -> R) -> bool {
    match (guard(a), guard(b)) {
        (Some(x), Some(y)) => x == y,
        (None, None) => true,
        _ => false,
    }
}

macro_rules! spell_type {
    ($fname:ident, $P:ty, $U:ty) => {
        pub fn $fname(thorough: bool) -> Vec<CellDef> {
            type P = $P;
            let fb = |b: u32| -> P { <P as Fx>::fb(b) };
            let mut v: Vec<CellDef> = vec![];
            let name = <P as Fx>::NAME;
            let n = <P as Fx>::N;
            let es = <P as Fx>::ES;

            // ---- binary operators: trait operator, inherent const fn, op-assign; Float::max/min vs Ord vs inherent
            for (sfx, sp) in pairs::<P>(thorough) {
                v.push(CellDef::new("C17", format!("{}/binary_spellings{}", name, sfx), sp, move |k| {
                    let (a, b) = k2(k);
                    let (pa, pb) = (fb(a), fb(b));
                    let mut bad = 0u128;
                    let mut bit = 0;
                    let mut chk = |ok: bool| {
                        if !ok {
                            bad |= 1 << bit;
                        }
                        bit += 1;
                    };
                    chk(agree(|| (pa + pb).to_bits(), || P::add(pa, pb).to_bits()));
                    chk(agree(|| { let mut z = pa; z += pb; z.to_bits() }, || P::add(pa, pb).to_bits()));
                    chk(agree(|| (pa - pb).to_bits(), || P::sub(pa, pb).to_bits()));
                    chk(agree(|| { let mut z = pa; z -= pb; z.to_bits() }, || P::sub(pa, pb).to_bits()));
                    chk(agree(|| (pa * pb).to_bits(), || P::mul(pa, pb).to_bits()));
                    chk(agree(|| { let mut z = pa; z *= pb; z.to_bits() }, || P::mul(pa, pb).to_bits()));
                    chk(agree(|| (pa / pb).to_bits(), || P::div(pa, pb).to_bits()));
                    chk(agree(|| { let mut z = pa; z /= pb; z.to_bits() }, || P::div(pa, pb).to_bits()));
                    chk(agree(|| (pa % pb).to_bits(), || P::rem(pa, pb).to_bits()));
                    chk(agree(|| { let mut z = pa; z %= pb; z.to_bits() }, || P::rem(pa, pb).to_bits()));
                    chk(agree(|| Float::max(pa, pb).to_bits(), || P::max(pa, pb).to_bits()));
                    chk(agree(|| Float::min(pa, pb).to_bits(), || P::min(pa, pb).to_bits()));
                    chk(agree(|| Ord::max(pa, pb).to_bits(), || P::max(pa, pb).to_bits()));
                    chk(agree(|| Ord::min(pa, pb).to_bits(), || P::min(pa, pb).to_bits()));
                    chk(agree(|| Signed::abs_sub(&pa, &pb).to_bits(), || if pa <= pb { P::ZERO.to_bits() } else { (pa - pb).to_bits() }));
                    Out { ok: bad == 0, nt: true, got: bad, want: 0, ops: 30, panicked: false }
                }));
            }
            {
                // elementary binary functions (whole-body stubs for P8E0/P16E1): alphabet product
                let a = alphabet(n, es, n < 32);
                let a = if n == 32 && !thorough { a.into_iter().step_by(3).collect::<Vec<_>>() } else { a };
                v.push(CellDef::new("C17", format!("{}/binary_math_spellings", name), Space::prod2(a.clone(), a, format!("alphabet({},{})^2", n, es)), move |k| {
                    let (a, b) = k2(k);
                    let (pa, pb) = (fb(a), fb(b));
                    let mut bad = 0u128;
                    let mut bit = 0;
                    let mut chk = |ok: bool| {
                        if !ok {
                            bad |= 1 << bit;
                        }
                        bit += 1;
                    };
                    chk(agree(|| Float::powf(pa, pb).to_bits(), || P::powf(pa, pb).to_bits()));
                    chk(agree(|| Float::hypot(pa, pb).to_bits(), || P::hypot(pa, pb).to_bits()));
                    chk(agree(|| Float::atan2(pa, pb).to_bits(), || P::atan2(pa, pb).to_bits()));
                    chk(agree(|| Float::log(pa, pb).to_bits(), || P::log(pa, pb).to_bits()));
                    Out { ok: bad == 0, nt: true, got: bad, want: 0, ops: 8, panicked: false }
                }));
            }
            for (sfx, sp) in triples::<P>(false) {
                v.push(CellDef::new("C17", format!("{}/fma_spellings{}", name, sfx), sp, move |k| {
                    let (a, b, c) = k3(k);
                    let (pa, pb, pc) = (fb(a), fb(b), fb(c));
                    let ok = agree(|| Float::mul_add(pa, pb, pc).to_bits(), || P::mul_add(pa, pb, pc).to_bits());
                    Out { ok, nt: true, got: !ok as u128, want: 0, ops: 2, panicked: false }
                }));
            }

            // ---- unary: core (implemented everywhere) on the full unary space
            for (sfx, sp) in unary::<P>(thorough) {
                v.push(CellDef::new("C17", format!("{}/unary_core_spellings{}", name, sfx), sp, move |k| {
                    let p = fb(k as u32);
                    let mut bad = 0u128;
                    let mut bit = 0;
                    let mut chk = |ok: bool| {
                        if !ok {
                            bad |= 1 << bit;
                        }
                        bit += 1;
                    };
                    chk(agree(|| (-p).to_bits(), || P::neg(p).to_bits()));
                    chk(agree(|| Float::floor(p).to_bits(), || P::floor(p).to_bits()));
                    chk(agree(|| Float::ceil(p).to_bits(), || P::ceil(p).to_bits()));
                    chk(agree(|| Float::round(p).to_bits(), || P::round(p).to_bits()));
                    chk(agree(|| Float::trunc(p).to_bits(), || P::trunc(p).to_bits()));
                    chk(agree(|| Float::fract(p).to_bits(), || P::fract(p).to_bits()));
                    chk(agree(|| Float::abs(p).to_bits(), || P::abs(p).to_bits()));
                    chk(agree(|| Signed::abs(&p).to_bits(), || P::abs(p).to_bits()));
                    chk(agree(|| Float::signum(p).to_bits(), || P::signum(p).to_bits()));
                    chk(agree(|| Signed::signum(&p).to_bits(), || P::signum(p).to_bits()));
                    chk(agree(|| Float::is_sign_positive(p), || P::is_sign_positive(p)));
                    chk(agree(|| Float::is_sign_negative(p), || P::is_sign_negative(p)));
                    chk(agree(|| Signed::is_negative(&p), || P::is_sign_negative(p)));
                    chk(agree(|| Signed::is_positive(&p), || P::is_sign_positive(p)));
                    chk(agree(|| Float::is_nan(p), || P::is_nan(p)));
                    chk(agree(|| Float::is_infinite(p), || P::is_infinite(p)));
                    chk(agree(|| Float::is_finite(p), || P::is_finite(p)));
                    chk(agree(|| Float::is_normal(p), || P::is_normal(p)));
                    chk(agree(|| Float::classify(p), || P::classify(p)));
                    chk(agree(|| Zero::is_zero(&p), || P::is_zero(p)));
                    chk(agree(|| One::is_one(&p), || p == P::ONE));
                    chk(agree(|| Float::recip(p).to_bits(), || P::recip(p).to_bits()));
                    chk(agree(|| Float::sqrt(p).to_bits(), || P::sqrt(p).to_bits()));
                    chk(agree(|| ToPrimitive::to_i64(&p), || Some(P::to_i64(p))));
                    chk(agree(|| ToPrimitive::to_u64(&p), || Some(P::to_u64(p))));
                    chk(agree(|| ToPrimitive::to_f64(&p).map(f64::to_bits), || Some(P::to_f64(p).to_bits())));
                    chk(agree(|| <i64 as From<P>>::from(p), || P::to_i64(p)));
                    chk(agree(|| <u64 as From<P>>::from(p), || P::to_u64(p)));
                    chk(agree(|| <i32 as From<P>>::from(p), || P::to_i32(p)));
                    chk(agree(|| <u32 as From<P>>::from(p), || P::to_u32(p)));
                    chk(agree(|| <i16 as From<P>>::from(p), || P::to_i16(p)));
                    chk(agree(|| <u16 as From<P>>::from(p), || P::to_u16(p)));
                    chk(agree(|| <i8 as From<P>>::from(p), || P::to_i8(p)));
                    chk(agree(|| <u8 as From<P>>::from(p), || P::to_u8(p)));
                    chk(agree(|| <isize as From<P>>::from(p), || P::to_isize(p)));
                    chk(agree(|| <usize as From<P>>::from(p), || P::to_usize(p)));
                    chk(agree(|| P::to_i16(p), || P::to_i32(p) as i16));
                    chk(agree(|| P::to_u8(p), || P::to_u32(p) as u8));
                    chk(agree(|| <f64 as From<P>>::from(p).to_bits(), || P::to_f64(p).to_bits()));
                    chk(agree(|| <f32 as From<P>>::from(p).to_bits(), || P::to_f32(p).to_bits()));
                    chk(agree(|| <P as NumCast>::from(p).map(|q| q.to_bits()), || Some(P::from_f64(P::to_f64(p)).to_bits())));
                    Out { ok: bad == 0, nt: true, got: bad, want: 0, ops: 82, panicked: false }
                }));
            }
            // ---- unary: elementary functions (many are whole-body stubs for P8E0/P16E1) on the alphabet
            {
                let mut l = alphabet(n, es, true);
                if n == 32 && thorough {
                    l.extend((0..lattice_len(32, 16)).map(|i| lattice_key(32, 16, i)));
                    l.sort();
                    l.dedup();
                }
                v.push(CellDef::new("C17", format!("{}/unary_math_spellings", name), Space::list32(l, format!("A({},{},rich){}", n, es, if n == 32 && thorough { " + lattice(top 16 bits)" } else { "" })), move |k| {
                    let p = fb(k as u32);
                    let mut bad = 0u128;
                    let mut bit = 0;
                    let mut chk = |ok: bool| {
                        if !ok {
                            bad |= 1 << bit;
                        }
                        bit += 1;
                    };
                    macro_rules! f1 { ($m:ident) => { chk(agree(|| Float::$m(p).to_bits(), || P::$m(p).to_bits())); }; }
                    f1!(exp); f1!(exp2); f1!(ln); f1!(log2); f1!(log10); f1!(cbrt);
                    f1!(sin); f1!(cos); f1!(tan); f1!(asin); f1!(acos); f1!(atan);
                    f1!(exp_m1); f1!(ln_1p); f1!(sinh); f1!(cosh); f1!(tanh); f1!(asinh); f1!(acosh); f1!(atanh);
                    chk(agree(|| { let (s, c) = Float::sin_cos(p); (s.to_bits(), c.to_bits()) }, || { let (s, c) = P::sin_cos(p); (s.to_bits(), c.to_bits()) }));
                    chk(agree(|| Float::powi(p, 3).to_bits(), || P::powi(p, 3).to_bits()));
                    Out { ok: bad == 0, nt: true, got: bad, want: 0, ops: 44, panicked: false }
                }));
            }

            // ---- constants
            v.push(CellDef::new("C17", format!("{}/constants", name), Space::func(1, "the one case: every constant spelling", |_| 0), move |_| {
                let mut bad = 0u128;
                let mut bit = 0;
                let mut chk = |ok: bool| {
                    if !ok {
                        bad |= 1 << bit;
                    }
                    bit += 1;
                };
                let m = vpcore::refs::mask(n);
                chk(<P as Zero>::zero().to_bits() == P::ZERO.to_bits() && P::ZERO.to_bits() == 0);
                chk(<P as One>::one().to_bits() == P::ONE.to_bits() && P::ONE.to_bits() as u32 == 1u32 << (n - 2));
                chk(<P as Float>::nan().to_bits() == P::NAR.to_bits() && P::NAR.to_bits() as u32 == 1u32 << (n - 1));
                chk(<P as Float>::infinity().to_bits() == P::NAR.to_bits());
                chk(<P as Float>::neg_infinity().to_bits() == P::NAR.to_bits());
                chk(<P as Float>::neg_zero().to_bits() == P::ZERO.to_bits());
                chk(<P as Float>::min_value().to_bits() == P::MIN.to_bits() && P::MIN.to_bits() as u32 == ((1u32 << (n - 1)) + 1) & m);
                chk(<P as Float>::max_value().to_bits() == P::MAX.to_bits() && P::MAX.to_bits() as u32 == (1u32 << (n - 1)) - 1);
                chk(<P as Float>::min_positive_value().to_bits() == P::MIN_POSITIVE.to_bits() && P::MIN_POSITIVE.to_bits() == 1);
                chk(<P as Bounded>::min_value().to_bits() == P::MIN.to_bits());
                chk(<P as Bounded>::max_value().to_bits() == P::MAX.to_bits());
                macro_rules! fc { ($c:ident, $val:expr) => {
                    chk(<P as FloatConst>::$c().to_bits() == <P as MathConsts>::$c.to_bits());
                    // the constant is the correctly rounded value (f64 constant is far more precise than any posit here)
                    chk(<P as MathConsts>::$c.to_bits() as u32 == vpcore::refs::from_f64(n, es, $val).0);
                }; }
                use std::f64::consts as c;
                fc!(E, c::E); fc!(FRAC_1_PI, c::FRAC_1_PI); fc!(FRAC_1_SQRT_2, c::FRAC_1_SQRT_2); fc!(FRAC_2_PI, c::FRAC_2_PI);
                fc!(FRAC_2_SQRT_PI, c::FRAC_2_SQRT_PI); fc!(FRAC_PI_2, c::FRAC_PI_2); fc!(FRAC_PI_3, c::FRAC_PI_3); fc!(FRAC_PI_4, c::FRAC_PI_4);
                fc!(FRAC_PI_6, c::FRAC_PI_6); fc!(FRAC_PI_8, c::FRAC_PI_8); fc!(LN_10, c::LN_10); fc!(LN_2, c::LN_2);
                fc!(LOG10_E, c::LOG10_E); fc!(LOG2_E, c::LOG2_E); fc!(PI, c::PI); fc!(SQRT_2, c::SQRT_2);
                Out { ok: bad == 0, nt: true, got: bad, want: 0, ops: 43, panicked: false }
            }));

            // ---- FromPrimitive / From / NumCast on integer and float lattices
            let hb = if thorough { 19 } else { 16 };
            v.push(CellDef::new("C17", format!("{}/from_int_spellings", name), Space::func(u64_lattice_len(hb), format!("every {hb}-bit head at every shift 0..63 x low fill: the 64-bit word is read as i64/u64 and truncated to the narrower types"), move |i| u64_lattice(hb, i) as u128), move |k| {
                let w = k as u64;
                let mut bad = 0u128;
                let mut bit = 0;
                let mut chk = |ok: bool| {
                    if !ok {
                        bad |= 1 << bit;
                    }
                    bit += 1;
                };
                macro_rules! fp { ($f:ident, $t:ty) => {
                    let x = w as $t;
                    chk(agree(|| <P as FromPrimitive>::$f(x).map(|q| q.to_bits()), || Some(P::$f(x).to_bits())));
                    chk(agree(|| <P as From<$t>>::from(x).to_bits(), || P::$f(x).to_bits()));
                }; }
                fp!(from_i8, i8); fp!(from_u8, u8); fp!(from_i16, i16); fp!(from_u16, u16);
                fp!(from_i32, i32); fp!(from_u32, u32); fp!(from_i64, i64); fp!(from_u64, u64);
                // the remaining FromPrimitive entry points (trait defaults unless the crate overrides them): inside the 64-bit
                // range they must be the 64-bit conversion
                chk(agree(|| <P as FromPrimitive>::from_u128(w as u128).map(|q| q.to_bits()), || Some(P::from_u64(w).to_bits())));
                chk(agree(|| <P as FromPrimitive>::from_i128(w as i64 as i128).map(|q| q.to_bits()), || Some(P::from_i64(w as i64).to_bits())));
                chk(agree(|| <P as FromPrimitive>::from_usize(w as usize).map(|q| q.to_bits()), || Some(P::from_u64(w).to_bits())));
                chk(agree(|| <P as FromPrimitive>::from_isize(w as isize).map(|q| q.to_bits()), || Some(P::from_i64(w as i64).to_bits())));
                chk(agree(|| <P as From<isize>>::from(w as isize).to_bits(), || P::from_isize(w as isize).to_bits()));
                chk(agree(|| <P as From<usize>>::from(w as usize).to_bits(), || P::from_usize(w as usize).to_bits()));
                chk(agree(|| P::from_i8(w as i8).to_bits(), || P::from_i32(w as i8 as i32).to_bits()));
                chk(agree(|| P::from_u16(w as u16).to_bits(), || P::from_u32(w as u16 as u32).to_bits()));
                chk(agree(|| P::from_isize(w as isize).to_bits(), || P::from_i64(w as i64).to_bits()));
                // NumCast is documented by its impl as going through f64
                chk(agree(|| <P as NumCast>::from(w as i64).map(|q| q.to_bits()), || Some(P::from_f64(w as i64 as f64).to_bits())));
                chk(agree(|| <P as NumCast>::from(w).map(|q| q.to_bits()), || Some(P::from_f64(w as f64).to_bits())));
                chk(agree(|| <P as NumCast>::from(w as i32).map(|q| q.to_bits()), || Some(P::from_f64(w as i32 as f64).to_bits())));
                Out { ok: bad == 0, nt: true, got: bad, want: 0, ops: 48, panicked: false }
            }));
            {
                let mans = f64_mantissas();
                let mans: Vec<u64> = if thorough { mans } else { mans.into_iter().step_by(4).collect() };
                let nm = mans.len() as u64;
                v.push(CellDef::new("C17", format!("{}/from_float_spellings", name), Space::func(2 * 2048 * nm, format!("structured doubles: sign x 2048 exponents x {} mantissas (also cast to f32)", nm), move |i| {
                    (((i / nm / 2048) << 63) | (((i / nm) % 2048) << 52) | mans[(i % nm) as usize]) as u128
                }), move |k| {
                    let x = f64::from_bits(k as u64);
                    let y = x as f32;
                    let mut bad = 0u128;
                    let mut bit = 0;
                    let mut chk = |ok: bool| {
                        if !ok {
                            bad |= 1 << bit;
                        }
                        bit += 1;
                    };
                    chk(agree(|| <P as FromPrimitive>::from_f64(x).map(|q| q.to_bits()), || Some(P::from_f64(x).to_bits())));
                    chk(agree(|| <P as From<f64>>::from(x).to_bits(), || P::from_f64(x).to_bits()));
                    chk(agree(|| <P as FromPrimitive>::from_f32(y).map(|q| q.to_bits()), || Some(P::from_f32(y).to_bits())));
                    chk(agree(|| <P as From<f32>>::from(y).to_bits(), || P::from_f32(y).to_bits()));
                    chk(agree(|| <P as NumCast>::from(x).map(|q| q.to_bits()), || Some(P::from_f64(x).to_bits())));
                    chk(agree(|| <P as NumCast>::from(y).map(|q| q.to_bits()), || Some(P::from_f64(y as f64).to_bits())));
                    Out { ok: bad == 0, nt: true, got: bad, want: 0, ops: 12, panicked: false }
                }));
            }
            // ---- Num::from_str_radix
            {
                let l: Vec<u32> = if n <= 16 { (0..(1u64 << n)).map(|x| x as u32).collect() } else { alphabet(32, 2, true) };
                v.push(CellDef::new("C17", format!("{}/from_str_radix", name), Space::list32(l, "decimal strings of every value (P8/P16) / alphabet (P32); integer strings in radix 2, 16, 36"), move |k| {
                    let p = fb(k as u32);
                    let s = p.to_string();
                    let mut ok = true;
                    let viaf = |s: &str, r: u32| -> Option<u32> { <f64 as Num>::from_str_radix(s, r).ok().map(|f| P::from_f64(f).to_bits() as u32) };
                    ok &= agree(|| <P as Num>::from_str_radix(&s, 10).ok().map(|q| q.to_bits() as u32), || viaf(&s, 10));
                    ok &= agree(|| s.parse::<P>().ok().map(|q| q.to_bits() as u32), || s.parse::<f64>().ok().map(|f| P::from_f64(f).to_bits() as u32));
                    let i = P::to_i64(p).unsigned_abs() % 1_000_000_007;
                    for (r, st) in [(2u32, format!("{:b}", i)), (16, format!("{:x}", i)), (36, format!("{}z", i % 9))] {
                        ok &= agree(|| <P as Num>::from_str_radix(&st, r).ok().map(|q| q.to_bits() as u32), || viaf(&st, r));
                    }
                    Out { ok, nt: true, got: !ok as u128, want: 0, ops: 10, panicked: false }
                }));
            }
            // every short string over the characters a number, a name or a typo can contain, in radices on both sides
            // of the points where letters become digits
            {
                const CH: &[u8] = b"0123456789abcdefghijklmnopqrstuvwxyzABCDEFGHIJKLMNOPQRSTUVWXYZ.-+_ ";
                const RAD: [u32; 8] = [2, 8, 10, 16, 23, 28, 35, 36];
                const NAMES: [&str; 16] = ["NaN", "nan", "NAN", "inf", "-inf", "+inf", "infinity", "Infinity", "NaR", "nar", "-NaR", "+NaR", "NAR", "1e5", "1E-3", "z.z"];
                let nc = CH.len() as u64;
                let nstr = 1 + nc + nc * nc + nc * nc * nc + NAMES.len() as u64;
                v.push(CellDef::new("C17", format!("{}/from_str_radix#strings", name), Space::func(nstr * RAD.len() as u64, format!("every string of length <= 3 over {} characters (digits, letters of both cases, . - + _ space) and {} names, in radix 2, 8, 10, 16, 23, 28, 35, 36", nc, NAMES.len()), |i| i as u128), move |k| {
                    let i = k as u64;
                    let r = RAD[(i % RAD.len() as u64) as usize];
                    let mut j = i / RAD.len() as u64;
                    let st: String = if j >= nstr - NAMES.len() as u64 {
                        NAMES[(j - (nstr - NAMES.len() as u64)) as usize].to_string()
                    } else {
                        // length-prefixed enumeration: 0 -> "", then lengths 1, 2, 3
                        let mut len = 0;
                        let mut block = 1u64;
                        while j >= block {
                            j -= block;
                            block *= nc;
                            len += 1;
                        }
                        let mut b = vec![0u8; len];
                        for t in (0..len).rev() {
                            b[t] = CH[(j % nc) as usize];
                            j /= nc;
                        }
                        String::from_utf8(b).unwrap()
                    };
                    // Option<Option<bits>>: outer = did not panic, inner = Ok
                    let a = guard(|| <P as Num>::from_str_radix(&st, r).ok().map(|q| q.to_bits() as u32));
                    let b = guard(|| <f64 as Num>::from_str_radix(&st, r).ok().map(|f| P::from_f64(f).to_bits() as u32));
                    // both unwinding (num-traits rejects some radices by panicking) is agreement
                    let ok = a == b;
                    let enc = |x: Option<Option<u32>>| -> u128 { match x { None => 2 << 32, Some(None) => 1 << 32, Some(Some(v)) => v as u128 } };
                    Out { ok, nt: matches!(b, Some(Some(_))), got: enc(a), want: enc(b), ops: 2, panicked: false }
                }));
            }
            // ---- FromStr on decimal strings that denote a double exactly: the rounding boundaries of the type (midpoints of
            // adjacent posits, exact in f64) and the doubles next to them, printed with all their digits; and exponent forms
            // over the whole f64 range. `s.parse::<P>()` is `from_f64` of the double the string denotes.
            {
                let l: Vec<u32> = if n <= 16 { (1..(1u64 << (n - 1)) - 1).map(|x| x as u32).collect() } else {
                    let mut a: Vec<u32> = alphabet(32, 2, true).into_iter().filter(|&x| x > 0 && x < 0x7fff_fffe).collect();
                    a.extend((1..(1u32 << 15)).map(|i| i << 16 | 0x7fff));
                    a.sort();
                    a.dedup();
                    a
                };
                v.push(CellDef::new("C17", format!("{}/parse#boundaries", name), Space::list32(l, "for every posit x of the list: the midpoint of x and its successor and the doubles just above / below it, both signs, as exact decimal strings"), move |k| {
                    let x = k as u32;
                    let (Some(a), Some(b)) = (vp_oracle::decode(n, es, x), vp_oracle::decode(n, es, x + 1)) else { return Out::skip() };
                    let mid = (vp_oracle::to_f64_exact(a) + vp_oracle::to_f64_exact(b)) / 2.0; // exact: both have <= 30 significant bits
                    let mut ok = true;
                    for f in [mid, f64::from_bits(mid.to_bits() + 1), f64::from_bits(mid.to_bits() - 1)] {
                        for sg in [1.0f64, -1.0] {
                            let f = f * sg;
                            let st = format!("{:.1100}", f); // every digit of the double
                            let st = st.trim_end_matches('0').to_string();
                            let st2 = format!("{:e}", f); // shortest round-trip form
                            for s in [&st, &st2] {
                                ok &= agree(|| s.parse::<P>().ok().map(|q| q.to_bits() as u32), || Some(P::from_f64(f).to_bits() as u32));
                                ok &= agree(|| <P as Num>::from_str_radix(s, 10).ok().map(|q| q.to_bits() as u32), || s.parse::<f64>().ok().map(|g| P::from_f64(g).to_bits() as u32));
                            }
                        }
                    }
                    Out { ok, nt: true, got: !ok as u128, want: 0, ops: 24, panicked: false }
                }));
                v.push(CellDef::new("C17", format!("{}/parse#exponents", name), Space::func(4 * 700, "strings 1e<k>, 9.5e<k>, -1e<k>, 2.5E<k> for k = -350..=349", |i| i as u128), move |k| {
                    let e = (k / 4) as i64 - 350;
                    let st = match k % 4 { 0 => format!("1e{e}"), 1 => format!("9.5e{e}"), 2 => format!("-1e{e}"), _ => format!("2.5E{e}") };
                    let ok = agree(|| st.parse::<P>().ok().map(|q| q.to_bits() as u32), || st.parse::<f64>().ok().map(|g| P::from_f64(g).to_bits() as u32))
                        & agree(|| <P as Num>::from_str_radix(&st, 10).ok().map(|q| q.to_bits() as u32), || st.parse::<f64>().ok().map(|g| P::from_f64(g).to_bits() as u32));
                    Out { ok, nt: true, got: !ok as u128, want: 0, ops: 2, panicked: false }
                }));
            }
            let _ = (n, es);
            v
        }
    };
}

spell_type!(c17_p8, P8E0, u8);
spell_type!(c17_p16, P16E1, u16);
spell_type!(c17_p32, P32E2, u32);

/// type aliases and associated quire types are the concrete types
pub fn c17_types() -> Vec<CellDef> {
    use softposit::{AssociatedQuire, Q16E1, Q32E2, Q8E0, P16, P32, P8, Q16, Q32, Q8};
    use std::any::TypeId;
    vec![CellDef::new("C17", "aliases", Space::func(1, "the one case: TypeId of every alias", |_| 0), |_| {
        let ok = TypeId::of::<P8>() == TypeId::of::<P8E0>()
            && TypeId::of::<P16>() == TypeId::of::<P16E1>()
            && TypeId::of::<P32>() == TypeId::of::<P32E2>()
            && TypeId::of::<Q8>() == TypeId::of::<Q8E0>()
            && TypeId::of::<Q16>() == TypeId::of::<Q16E1>()
            && TypeId::of::<Q32>() == TypeId::of::<Q32E2>()
            && TypeId::of::<<P8E0 as AssociatedQuire<P8E0>>::Q>() == TypeId::of::<Q8E0>()
            && TypeId::of::<<P16E1 as AssociatedQuire<P16E1>>::Q>() == TypeId::of::<Q16E1>()
            && TypeId::of::<<P32E2 as AssociatedQuire<P32E2>>::Q>() == TypeId::of::<Q32E2>();
        Out { ok, nt: true, got: ok as u128, want: 1, ops: 9, panicked: false }
    })]
}

/// posit-to-posit conversions: `D::from(p)`, `p.into()`, `D::from_<src>(p)` and `p.to_<dst>()` are one operation
pub fn c17_conv(thorough: bool) -> Vec<CellDef> {
    use crate::fixed::unary_low;
    use softposit::{P16E1, P32E2, P8E0};
    let mut v = vec![];
    macro_rules! conv {
        ($S:ty, $D:ty, $from:ident, $to:ident) => {
            for (sfx, sp) in unary_low::<$S>(thorough, 8) {
                v.push(CellDef::new("C17", format!("{}->{}/conversion_spellings{}", <$S as Fx>::NAME, <$D as Fx>::NAME, sfx), sp, |k| {
                    let p = <$S as Fx>::fb(k as u32);
                    let got = guard(|| {
                        let a = <$D>::$from(p).to_bits();
                        let b = <$D as From<$S>>::from(p).to_bits();
                        let c: $D = p.into();
                        let d = p.$to().to_bits();
                        ((a != b) as u128) | ((a != c.to_bits()) as u128) << 1 | ((a != d) as u128) << 2
                    });
                    Out::cmp(got, 0, true).ops(4)
                }));
            }
        };
    }
    conv!(P8E0, P16E1, from_p8e0, to_p16e1);
    conv!(P8E0, P32E2, from_p8e0, to_p32e2);
    conv!(P16E1, P8E0, from_p16e1, to_p8e0);
    conv!(P16E1, P32E2, from_p16e1, to_p32e2);
    conv!(P32E2, P8E0, from_p32e2, to_p8e0);
    conv!(P32E2, P16E1, from_p32e2, to_p16e1);
    v
}

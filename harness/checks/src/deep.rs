//! "Deep sticky" forced collisions for the fused multiply-add family (C05, and C13 through PxE2<32>).
//!
//! The rounding of a*b +- c depends on where the *lowest* bits of the exact product fall: into the kept
//! bits, onto the guard bit, into the in-window sticky bits, or beyond the working word (where they must
//! survive as a sticky flag / a borrow). Alphabet products almost never produce a product whose only
//! low-order information is one far-away bit. This module enumerates operand pairs whose exact product
//! has a *sparse tail* (a lone lowest bit below a long run of zeros, or a long run of ones), and combines
//! each with every addend scale that puts the product's leading bit between "above c" and "beyond c's
//! guard bit", with a menu of addend fraction shapes (runs of ones that force carries, single bits, ...).
use std::sync::Arc;
use vp_oracle as o;
use vpcore::Space;

pub use vpcore::alpha::{build, frac_bits, shapes};

fn sparse_tail(m: u128, z: u32) -> bool {
    if m == 0 {
        return false;
    }
    let t = m >> m.trailing_zeros();
    if t < (1u128 << (z + 2)) {
        return false; // too short to have a tail below a head
    }
    let mask = (1u128 << (z + 1)) - 1;
    (t & mask) == 1 || (t & mask) == mask
}

/// every positive P16E1 pair a <= b whose exact product has a sparse tail of length >= z (complete search)
pub fn pairs16(z: u32) -> Vec<(u32, u32)> {
    let dec: Vec<u64> = (0..0x8000u32).map(|a| o::decode(16, 1, a).map_or(0, |x| x.m as u64)).collect();
    let chunks: Vec<Vec<(u32, u32)>> = std::thread::scope(|s| {
        let hs: Vec<_> = (0..16u32)
            .map(|t| {
                let dec = &dec;
                s.spawn(move || {
                    let mut v = vec![];
                    let mut a = 1 + t;
                    while a < 0x8000 {
                        let ma = dec[a as usize] as u128;
                        for b in a..0x8000u32 {
                            if sparse_tail(ma * dec[b as usize] as u128, z) {
                                v.push((a, b));
                            }
                        }
                        a += 16;
                    }
                    v
                })
            })
            .collect();
        hs.into_iter().map(|h| h.join().unwrap()).collect()
    });
    let mut v: Vec<(u32, u32)> = chunks.into_iter().flatten().collect();
    v.sort();
    v
}

/// structured pairs for any format: a in [1,2) with a full-width fraction shape, b = every scale x every
/// fraction shape; kept when the exact product has a sparse tail of length >= z
pub fn pairs_structured(n: u32, es: u32, z: u32, rich: bool) -> Vec<(u32, u32)> {
    let maxnf = n - 3 - es;
    let sa = shapes(maxnf, true);
    let one = 1u32 << (n - 2);
    let lim = (n as i32 - 2) * (1 << es);
    let mut bs: Vec<u32> = vec![];
    for scale in -lim..=lim {
        if let Some(nf) = frac_bits(n, es, scale) {
            for f in shapes(nf, rich) {
                bs.push(build(n, es, scale, |_| f).unwrap());
            }
        }
    }
    bs.sort();
    bs.dedup();
    let mut v = vec![];
    for &f in &sa {
        let a = one | f;
        let ma = o::decode(n, es, a).unwrap().m;
        for &b in &bs {
            let mb = o::decode(n, es, b).unwrap().m;
            if sparse_tail(ma * mb, z) {
                v.push((a, b));
            }
        }
    }
    v.sort();
    v.dedup();
    v
}

/// structured P32E2 pairs
pub fn pairs32(z: u32, rich: bool) -> Vec<(u32, u32)> {
    pairs_structured(32, 2, z, rich)
}

/// for every pair: addend scales from 2 above the product's leading bit down to `depth` below it, every
/// fraction shape, both signs of c (the operation kind supplies the effective add/subtract)
pub fn space(n: u32, es: u32, pairs: Arc<Vec<(u32, u32)>>, depth: i32, rich: bool, what: &str) -> Space {
    let maxnf = n - 3 - es;
    let nsh = shapes(maxnf, rich).len() as u64; // upper bound on the number of shapes at any scale
    let nsc = (depth + 3) as u64;
    let per = nsc * nsh * 2;
    let np = pairs.len() as u64;
    let m = if n == 32 { u32::MAX } else { (1u32 << n) - 1 };
    let tables: Vec<Vec<u32>> = (0..=maxnf).map(|nf| shapes(nf, rich)).collect();
    let desc = format!("{} ({} pairs) x addend scale = product scale + (-2..={}) x fraction shapes (runs of ones, single bits, menu: up to {}) x sign", what, np, depth, nsh);
    Space::func(np * per, desc, move |i| {
        let (a, b) = pairs[(i / per) as usize];
        let r = i % per;
        let neg = r & 1 == 1;
        let r = r >> 1;
        let si = (r % nsh) as usize;
        let j = (r / nsh) as i32 - 2;
        let (Some(x), Some(y)) = (o::decode(n, es, a), o::decode(n, es, b)) else { return 0 };
        let p = o::mul(x, y);
        let sp = p.e + (127 - p.m.leading_zeros() as i32);
        // clamp into the representable scale range
        let lim = (n as i32 - 2) * (1 << es) - 1;
        let sc = (sp + j).clamp(-lim, lim);
        let c = build(n, es, sc, |nf| {
            let t = &tables[nf as usize];
            t[si % t.len()]
        })
        .unwrap_or(1u32 << (n - 2));
        let c = if neg { c.wrapping_neg() & m } else { c };
        (a as u128) << 64 | (b as u128) << 32 | c as u128
    })
}

/// "shape" alphabet: every representable scale x every fraction shape (runs of ones, single bits, menu), both signs
pub fn alphabet_x(n: u32, es: u32, rich: bool) -> Vec<u32> {
    let m = if n == 32 { u32::MAX } else { (1u32 << n) - 1 };
    let lim = (n as i32 - 2) * (1 << es);
    let mut v = vec![0u32, 1u32 << (n - 1), (1u32 << (n - 1)) - 1, 1, (1u32 << (n - 1)) + 1, m];
    for scale in -lim..=lim {
        if let Some(nf) = frac_bits(n, es, scale) {
            for f in shapes(nf, rich) {
                let p = build(n, es, scale, |_| f).unwrap();
                v.push(p);
                v.push(p.wrapping_neg() & m);
            }
        }
    }
    v.sort();
    v.dedup();
    v
}

/// the members of the shape alphabet whose scale is in [-2, 2] (full-length fractions)
pub fn alphabet_x_near_one(n: u32, es: u32, rich: bool) -> Vec<u32> {
    let m = if n == 32 { u32::MAX } else { (1u32 << n) - 1 };
    let mut v = vec![];
    for scale in -2..=2 {
        if let Some(nf) = frac_bits(n, es, scale) {
            for f in shapes(nf, rich) {
                let p = build(n, es, scale, |_| f).unwrap();
                v.push(p);
                v.push(p.wrapping_neg() & m);
            }
        }
    }
    v.sort();
    v.dedup();
    v
}

/// Forced collisions for multiplication by modular inverse: for significands A (odd, nf+1 bits: every fraction
/// shape with an odd last bit and a fixed LCG-generated list of `extra` unstructured odd fractions) and every
/// target tail R (the low nf+1 bits of the exact product, i.e. guard bit + sticky bits when the product does not
/// carry: exact tie, tie +- 1, just below the tie (0 1..1), all ones, lone lowest bit, lone bit under the guard,
/// ...) the significand B = R * A^-1 mod 2^(nf+1) is solved for; pairs whose B is a normalised significand
/// (top bit set) are kept. Both operands are in [1, 2) (scale 0), so they have the full fraction length.
pub fn inverse_pairs(n: u32, es: u32, extra: u32) -> Vec<(u32, u32)> {
    let nf = n - 3 - es; // fraction bits at scale 0
    let w = nf + 1;
    let modmask: u64 = (1u64 << w) - 1;
    let one = 1u32 << (n - 2);
    let mut fr: Vec<u32> = shapes(nf, true).into_iter().filter(|f| f & 1 == 1).collect();
    let mut st: u64 = 0x2545_F491_4F6C_DD1D ^ ((n as u64) << 32) ^ es as u64;
    for _ in 0..extra {
        st = st.wrapping_mul(6364136223846793005).wrapping_add(1442695040888963407);
        fr.push((((st >> 24) as u32) & (((1u64 << nf) - 1) as u32)) | 1);
    }
    fr.sort();
    fr.dedup();
    let half = 1u64 << nf; // the guard bit position within the tail
    let targets: Vec<u64> = vec![
        half, half + 1, half - 1, half | (1 << (nf / 2)), half + 3, modmask, modmask - 1, 1, 3, (half >> 1), (half >> 1) | 1,
        half | (half >> 1), 0, 2, half - 2, (half >> 1) - 1,
    ];
    let inv = |a: u64| -> u64 {
        // Newton iteration for the inverse of an odd number modulo 2^64
        let mut x = a;
        for _ in 0..6 {
            x = x.wrapping_mul(2u64.wrapping_sub(a.wrapping_mul(x)));
        }
        x
    };
    let mut v = vec![];
    for &f in &fr {
        let a_sig = (1u64 << nf) | f as u64;
        let ai = inv(a_sig);
        for &r in &targets {
            let b_sig = r.wrapping_mul(ai) & modmask;
            if b_sig >> nf != 1 {
                continue;
            }
            debug_assert_eq!(a_sig.wrapping_mul(b_sig) & modmask, r & modmask);
            v.push((one | f, one | (b_sig as u32 & (((1u64 << nf) - 1) as u32))));
        }
    }
    v.sort();
    v.dedup();
    v
}

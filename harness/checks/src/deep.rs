//! "Deep sticky" forced collisions for the fused multiply-add family (C05, and C13 through PxE2<32>).
//!
//! The rounding of a*b +- c depends on where the *lowest* bits of the exact product fall: into the kept
//! bits, onto the guard bit, into the in-window sticky bits, or beyond the working word (where they must
//! survive as a sticky flag / a borrow). Alphabet products almost never produce a product whose only
//! low-order information is one far-away bit. This module enumerates operand pairs whose exact product
//! has a *sparse tail* (a lone lowest bit below a long run of zeros, or a long run of ones), and combines
//! each with every addend scale that puts the product's leading bit between "above c" and "beyond c's
//! guard bit", with a menu of addend fraction shapes (runs of ones that force carries, single bits, ...).
use std::sync::Arc;
use vp_oracle as o;
use vpcore::Space;

/// fraction shapes of width nf (values < 2^nf): runs of ones from the top, runs of ones at the bottom,
/// single bits, and a small menu
pub fn shapes(nf: u32, rich: bool) -> Vec<u32> {
    if nf == 0 {
        return vec![0];
    }
    let full = ((1u64 << nf) - 1) as u32;
    let mut v = vec![0, 1, full, full - (full > 0) as u32, 1 << (nf - 1), (1 << (nf - 1)) | 1, (1u32 << (nf - 1)).wrapping_sub(1) & full, 0x5555_5555 & full, 0x2aaa_aaaa & full];
    for j in 1..nf {
        v.push(full & !(((1u64 << (nf - j)) - 1) as u32)); // 1^j 0^(nf-j)
        v.push(((1u64 << j) - 1) as u32); // 0^(nf-j) 1^j
        if rich {
            v.push(1 << j);
            v.push((full & !(((1u64 << (nf - j)) - 1) as u32)) | 1); // 1^j 0.. 1
        }
    }
    v.sort();
    v.dedup();
    v
}

/// positive posit with the given scale (= es-exponent + 2^es * regime k) and fraction shape index;
/// returns None when the scale is out of range
pub fn build(n: u32, es: u32, scale: i32, frac_of: impl Fn(u32) -> u32) -> Option<u32> {
    let useed = 1i32 << es;
    let k = scale.div_euclid(useed);
    let e = scale.rem_euclid(useed) as u32;
    let body = n - 1;
    let (rbits, rl): (u64, u32) = if k >= 0 { ((((1u64 << (k + 1)) - 1) << 1), (k + 2) as u32) } else { (1, (-k + 1) as u32) };
    if rl > body {
        return None;
    }
    let avail = body - rl;
    let ebits = avail.min(es);
    if ebits < es && (e & ((1 << (es - ebits)) - 1)) != 0 {
        return None;
    }
    let nf = avail - ebits;
    let f = frac_of(nf);
    Some(((rbits as u32) << (body - rl)) | ((e >> (es - ebits)) << nf) | f)
}

pub fn frac_bits(n: u32, es: u32, scale: i32) -> Option<u32> {
    let nf = std::cell::Cell::new(0);
    build(n, es, scale, |x| {
        nf.set(x);
        0
    })?;
    Some(nf.get())
}

fn sparse_tail(m: u128, z: u32) -> bool {
    if m == 0 {
        return false;
    }
    let t = m >> m.trailing_zeros();
    if t < (1u128 << (z + 2)) {
        return false; // too short to have a tail below a head
    }
    let mask = (1u128 << (z + 1)) - 1;
    (t & mask) == 1 || (t & mask) == mask
}

/// every positive P16E1 pair a <= b whose exact product has a sparse tail of length >= z (complete search)
pub fn pairs16(z: u32) -> Vec<(u32, u32)> {
    let dec: Vec<u64> = (0..0x8000u32).map(|a| o::decode(16, 1, a).map_or(0, |x| x.m as u64)).collect();
    let chunks: Vec<Vec<(u32, u32)>> = std::thread::scope(|s| {
        let hs: Vec<_> = (0..16u32)
            .map(|t| {
                let dec = &dec;
                s.spawn(move || {
                    let mut v = vec![];
                    let mut a = 1 + t;
                    while a < 0x8000 {
                        let ma = dec[a as usize] as u128;
                        for b in a..0x8000u32 {
                            if sparse_tail(ma * dec[b as usize] as u128, z) {
                                v.push((a, b));
                            }
                        }
                        a += 16;
                    }
                    v
                })
            })
            .collect();
        hs.into_iter().map(|h| h.join().unwrap()).collect()
    });
    let mut v: Vec<(u32, u32)> = chunks.into_iter().flatten().collect();
    v.sort();
    v
}

/// structured pairs for any format: a in [1,2) with a full-width fraction shape, b = every scale x every
/// fraction shape; kept when the exact product has a sparse tail of length >= z
pub fn pairs_structured(n: u32, es: u32, z: u32, rich: bool) -> Vec<(u32, u32)> {
    let maxnf = n - 3 - es;
    let sa = shapes(maxnf, true);
    let one = 1u32 << (n - 2);
    let lim = (n as i32 - 2) * (1 << es);
    let mut bs: Vec<u32> = vec![];
    for scale in -lim..=lim {
        if let Some(nf) = frac_bits(n, es, scale) {
            for f in shapes(nf, rich) {
                bs.push(build(n, es, scale, |_| f).unwrap());
            }
        }
    }
    bs.sort();
    bs.dedup();
    let mut v = vec![];
    for &f in &sa {
        let a = one | f;
        let ma = o::decode(n, es, a).unwrap().m;
        for &b in &bs {
            let mb = o::decode(n, es, b).unwrap().m;
            if sparse_tail(ma * mb, z) {
                v.push((a, b));
            }
        }
    }
    v.sort();
    v.dedup();
    v
}

/// structured P32E2 pairs
pub fn pairs32(z: u32, rich: bool) -> Vec<(u32, u32)> {
    pairs_structured(32, 2, z, rich)
}

/// for every pair: addend scales from 2 above the product's leading bit down to `depth` below it, every
/// fraction shape, both signs of c (the operation kind supplies the effective add/subtract)
pub fn space(n: u32, es: u32, pairs: Arc<Vec<(u32, u32)>>, depth: i32, rich: bool, what: &str) -> Space {
    let maxnf = n - 3 - es;
    let nsh = shapes(maxnf, rich).len() as u64; // upper bound on the number of shapes at any scale
    let nsc = (depth + 3) as u64;
    let per = nsc * nsh * 2;
    let np = pairs.len() as u64;
    let m = if n == 32 { u32::MAX } else { (1u32 << n) - 1 };
    let tables: Vec<Vec<u32>> = (0..=maxnf).map(|nf| shapes(nf, rich)).collect();
    let desc = format!("{} ({} pairs) x addend scale = product scale + (-2..={}) x fraction shapes (runs of ones, single bits, menu: up to {}) x sign", what, np, depth, nsh);
    Space::func(np * per, desc, move |i| {
        let (a, b) = pairs[(i / per) as usize];
        let r = i % per;
        let neg = r & 1 == 1;
        let r = r >> 1;
        let si = (r % nsh) as usize;
        let j = (r / nsh) as i32 - 2;
        let (Some(x), Some(y)) = (o::decode(n, es, a), o::decode(n, es, b)) else { return 0 };
        let p = o::mul(x, y);
        let sp = p.e + (127 - p.m.leading_zeros() as i32);
        // clamp into the representable scale range
        let lim = (n as i32 - 2) * (1 << es) - 1;
        let sc = (sp + j).clamp(-lim, lim);
        let c = build(n, es, sc, |nf| {
            let t = &tables[nf as usize];
            t[si % t.len()]
        })
        .unwrap_or(1u32 << (n - 2));
        let c = if neg { c.wrapping_neg() & m } else { c };
        (a as u128) << 64 | (b as u128) << 32 | c as u128
    })
}

/// "shape" alphabet: every representable scale x every fraction shape (runs of ones, single bits, menu), both signs
pub fn alphabet_x(n: u32, es: u32, rich: bool) -> Vec<u32> {
    let m = if n == 32 { u32::MAX } else { (1u32 << n) - 1 };
    let lim = (n as i32 - 2) * (1 << es);
    let mut v = vec![0u32, 1u32 << (n - 1), (1u32 << (n - 1)) - 1, 1, (1u32 << (n - 1)) + 1, m];
    for scale in -lim..=lim {
        if let Some(nf) = frac_bits(n, es, scale) {
            for f in shapes(nf, rich) {
                let p = build(n, es, scale, |_| f).unwrap();
                v.push(p);
                v.push(p.wrapping_neg() & m);
            }
        }
    }
    v.sort();
    v.dedup();
    v
}

/// the members of the shape alphabet whose scale is in [-2, 2] (full-length fractions)
pub fn alphabet_x_near_one(n: u32, es: u32, rich: bool) -> Vec<u32> {
    let m = if n == 32 { u32::MAX } else { (1u32 << n) - 1 };
    let mut v = vec![];
    for scale in -2..=2 {
        if let Some(nf) = frac_bits(n, es, scale) {
            for f in shapes(nf, rich) {
                let p = build(n, es, scale, |_| f).unwrap();
                v.push(p);
                v.push(p.wrapping_neg() & m);
            }
        }
    }
    v.sort();
    v.dedup();
    v
}

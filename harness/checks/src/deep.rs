//! "Deep sticky" forced collisions for the fused multiply-add family (C05, and C13 through PxE2<32>).
//!
//! The rounding of a*b +- c depends on where the *lowest* bits of the exact product fall: into the kept
//! bits, onto the guard bit, into the in-window sticky bits, or beyond the working word (where they must
//! survive as a sticky flag / a borrow). Alphabet products almost never produce a product whose only
//! low-order information is one far-away bit. This module enumerates operand pairs whose exact product
//! has a *sparse tail* (a lone lowest bit below a long run of zeros, or a long run of ones), and combines
//! each with every addend scale that puts the product's leading bit between "above c" and "beyond c's
//! guard bit", with a menu of addend fraction shapes (runs of ones that force carries, single bits, ...).
use std::sync::Arc;
use vp_oracle as o;
use vpcore::Space;

pub use vpcore::alpha::{build, frac_bits, shapes};

fn sparse_tail(m: u128, z: u32) -> bool {
    if m == 0 {
        return false;
    }
    let t = m >> m.trailing_zeros();
    if t < (1u128 << (z + 2)) {
        return false; // too short to have a tail below a head
    }
    let mask = (1u128 << (z + 1)) - 1;
    (t & mask) == 1 || (t & mask) == mask
}

/// every positive P16E1 pair a <= b whose exact product has a sparse tail of length >= z (complete search)
pub fn pairs16(z: u32) -> Vec<(u32, u32)> {
    let dec: Vec<u64> = (0..0x8000u32).map(|a| o::decode(16, 1, a).map_or(0, |x| x.m as u64)).collect();
    let chunks: Vec<Vec<(u32, u32)>> = std::thread::scope(|s| {
        let hs: Vec<_> = (0..16u32)
            .map(|t| {
                let dec = &dec;
                s.spawn(move || {
                    let mut v = vec![];
                    let mut a = 1 + t;
                    while a < 0x8000 {
                        let ma = dec[a as usize] as u128;
                        for b in a..0x8000u32 {
                            if sparse_tail(ma * dec[b as usize] as u128, z) {
                                v.push((a, b));
                            }
                        }
                        a += 16;
                    }
                    v
                })
            })
            .collect();
        hs.into_iter().map(|h| h.join().unwrap()).collect()
    });
    let mut v: Vec<(u32, u32)> = chunks.into_iter().flatten().collect();
    v.sort();
    v
}

/// structured pairs for any format: a in [1,2) with a full-width fraction shape, b = every scale x every
/// fraction shape; kept when the exact product has a sparse tail of length >= z
pub fn pairs_structured(n: u32, es: u32, z: u32, rich: bool) -> Vec<(u32, u32)> {
    let maxnf = n - 3 - es;
    let sa = shapes(maxnf, true);
    let one = 1u32 << (n - 2);
    let lim = (n as i32 - 2) * (1 << es);
    let mut bs: Vec<u32> = vec![];
    for scale in -lim..=lim {
        if let Some(nf) = frac_bits(n, es, scale) {
            for f in shapes(nf, rich) {
                bs.push(build(n, es, scale, |_| f).unwrap());
            }
        }
    }
    bs.sort();
    bs.dedup();
    let mut v = vec![];
    for &f in &sa {
        let a = one | f;
        let ma = o::decode(n, es, a).unwrap().m;
        for &b in &bs {
            let mb = o::decode(n, es, b).unwrap().m;
            if sparse_tail(ma * mb, z) {
                v.push((a, b));
            }
        }
    }
    v.sort();
    v.dedup();
    v
}

/// structured P32E2 pairs
pub fn pairs32(z: u32, rich: bool) -> Vec<(u32, u32)> {
    pairs_structured(32, 2, z, rich)
}

/// for every pair: addend scales from 2 above the product's leading bit down to `depth` below it, every
/// fraction shape, both signs of c (the operation kind supplies the effective add/subtract)
pub fn space(n: u32, es: u32, pairs: Arc<Vec<(u32, u32)>>, depth: i32, rich: bool, what: &str) -> Space {
    let maxnf = n - 3 - es;
    let nsh = shapes(maxnf, rich).len() as u64; // upper bound on the number of shapes at any scale
    let nsc = (depth + 3) as u64;
    let per = nsc * nsh * 2;
    let np = pairs.len() as u64;
    let m = if n == 32 { u32::MAX } else { (1u32 << n) - 1 };
    let tables: Vec<Vec<u32>> = (0..=maxnf).map(|nf| shapes(nf, rich)).collect();
    let desc = format!("{} ({} pairs) x addend scale = product scale + (-2..={}) x fraction shapes (runs of ones, single bits, menu: up to {}) x sign", what, np, depth, nsh);
    Space::func(np * per, desc, move |i| {
        let (a, b) = pairs[(i / per) as usize];
        let r = i % per;
        let neg = r & 1 == 1;
        let r = r >> 1;
        let si = (r % nsh) as usize;
        let j = (r / nsh) as i32 - 2;
        let (Some(x), Some(y)) = (o::decode(n, es, a), o::decode(n, es, b)) else { return 0 };
        let p = o::mul(x, y);
        let sp = p.e + (127 - p.m.leading_zeros() as i32);
        // clamp into the representable scale range
        let lim = (n as i32 - 2) * (1 << es) - 1;
        let sc = (sp + j).clamp(-lim, lim);
        let c = build(n, es, sc, |nf| {
            let t = &tables[nf as usize];
            t[si % t.len()]
        })
        .unwrap_or(1u32 << (n - 2));
        let c = if neg { c.wrapping_neg() & m } else { c };
        (a as u128) << 64 | (b as u128) << 32 | c as u128
    })
}

/// "shape" alphabet: every representable scale x every fraction shape (runs of ones, single bits, menu), both signs
pub fn alphabet_x(n: u32, es: u32, rich: bool) -> Vec<u32> {
    let m = if n == 32 { u32::MAX } else { (1u32 << n) - 1 };
    let lim = (n as i32 - 2) * (1 << es);
    let mut v = vec![0u32, 1u32 << (n - 1), (1u32 << (n - 1)) - 1, 1, (1u32 << (n - 1)) + 1, m];
    for scale in -lim..=lim {
        if let Some(nf) = frac_bits(n, es, scale) {
            for f in shapes(nf, rich) {
                let p = build(n, es, scale, |_| f).unwrap();
                v.push(p);
                v.push(p.wrapping_neg() & m);
            }
        }
    }
    v.sort();
    v.dedup();
    v
}

/// the members of the shape alphabet whose scale is in [-2, 2] (full-length fractions)
pub fn alphabet_x_near_one(n: u32, es: u32, rich: bool) -> Vec<u32> {
    let m = if n == 32 { u32::MAX } else { (1u32 << n) - 1 };
    let mut v = vec![];
    for scale in -2..=2 {
        if let Some(nf) = frac_bits(n, es, scale) {
            for f in shapes(nf, rich) {
                let p = build(n, es, scale, |_| f).unwrap();
                v.push(p);
                v.push(p.wrapping_neg() & m);
            }
        }
    }
    v.sort();
    v.dedup();
    v
}

/// Forced collisions for multiplication by modular inverse: for significands A (odd, nf+1 bits: every fraction
/// shape with an odd last bit and a fixed LCG-generated list of `extra` unstructured odd fractions) and every
/// target tail R (the low nf+1 bits of the exact product, i.e. guard bit + sticky bits when the product does not
/// carry: exact tie, tie +- 1, just below the tie (0 1..1), all ones, lone lowest bit, lone bit under the guard,
/// ...) the significand B = R * A^-1 mod 2^(nf+1) is solved for; pairs whose B is a normalised significand
/// (top bit set) are kept. Both operands are in [1, 2) (scale 0), so they have the full fraction length.
pub fn inverse_pairs(n: u32, es: u32, extra: u32) -> Vec<(u32, u32)> {
    let nf = n - 3 - es; // fraction bits at scale 0
    let w = nf + 1;
    let modmask: u64 = (1u64 << w) - 1;
    let one = 1u32 << (n - 2);
    let mut fr: Vec<u32> = shapes(nf, true).into_iter().filter(|f| f & 1 == 1).collect();
    let mut st: u64 = 0x2545_F491_4F6C_DD1D ^ ((n as u64) << 32) ^ es as u64;
    for _ in 0..extra {
        st = st.wrapping_mul(6364136223846793005).wrapping_add(1442695040888963407);
        fr.push((((st >> 24) as u32) & (((1u64 << nf) - 1) as u32)) | 1);
    }
    fr.sort();
    fr.dedup();
    let half = 1u64 << nf; // the guard bit position within the tail
    let targets: Vec<u64> = vec![
        half, half + 1, half - 1, half | (1 << (nf / 2)), half + 3, modmask, modmask - 1, 1, 3, (half >> 1), (half >> 1) | 1,
        half | (half >> 1), 0, 2, half - 2, (half >> 1) - 1,
    ];
    let inv = |a: u64| -> u64 {
        // Newton iteration for the inverse of an odd number modulo 2^64
        let mut x = a;
        for _ in 0..6 {
            x = x.wrapping_mul(2u64.wrapping_sub(a.wrapping_mul(x)));
        }
        x
    };
    let mut v = vec![];
    for &f in &fr {
        let a_sig = (1u64 << nf) | f as u64;
        let ai = inv(a_sig);
        for &r in &targets {
            let b_sig = r.wrapping_mul(ai) & modmask;
            if b_sig >> nf != 1 {
                continue;
            }
            debug_assert_eq!(a_sig.wrapping_mul(b_sig) & modmask, r & modmask);
            v.push((one | f, one | (b_sig as u32 & (((1u64 << nf) - 1) as u32))));
        }
    }
    v.sort();
    v.dedup();
    v
}

// -------------------------------------------------------------------------------------------------
// "solve for the addend": exact results within one unit of the addend's last place of a rounding boundary
// -------------------------------------------------------------------------------------------------

/// Operand pairs (positive) whose exact product lies unusually close to a rounding boundary of the result
/// format: the bits below the guard bit start with a run of r >= zmin zeros or ones (so the product is within
/// 2^-r guard-bit units of a tie or of a representable value) — found by a complete scan of the cross
/// products of operand lists (every fraction shape + `extra` fixed LCG-generated unstructured fractions) at a
/// menu of operand scales. An addend that completes such a product to the boundary lies r + (fraction length
/// of the result) binades below the product with all of its fraction bits significant: the hardest alignment
/// case for a fused multiply-add. The candidates are stratified by (scale of the product, run length r,
/// zeros/ones): up to `per_bucket` pairs are kept per class (unstructured operands first), so that every
/// alignment that occurs at all is represented at every product scale.
pub fn near_tie_pairs(n: u32, es: u32, extra: u32, zmin: u32, per_bucket: usize) -> Vec<(u32, u32)> {
    let lim = (n as i32 - 2) * (1 << es);
    let menu: Vec<i32> = {
        let base = [0i32, 1, 2, 3, 5, 7, 9, 12, 14, 16, 18, 20, 22, 27, 31, 36, 44, 52, 60];
        let mut v: Vec<i32> = base.iter().flat_map(|&s| [s, -s]).filter(|s| s.abs() < lim).collect();
        v.sort();
        v.dedup();
        v
    };
    // operand lists per scale: (bits, significand, exponent, unstructured)
    let mut st: u64 = 0x9E37_79B9_7F4A_7C15 ^ ((n as u64) << 40) ^ ((es as u64) << 32);
    let lists: Vec<Vec<(u32, u128, i32, bool)>> = menu
        .iter()
        .map(|&s| {
            let Some(nf) = frac_bits(n, es, s) else { return vec![] };
            let sh = shapes(nf, true);
            let mut fr = sh.clone();
            if nf > 4 {
                for _ in 0..extra {
                    st = st.wrapping_mul(6364136223846793005).wrapping_add(1442695040888963407);
                    fr.push(((st >> 24) as u32) & (((1u64 << nf) - 1) as u32));
                }
            }
            fr.sort();
            fr.dedup();
            fr.into_iter()
                .map(|f| {
                    let p = build(n, es, s, |_| f).unwrap();
                    let x = o::decode(n, es, p).unwrap();
                    (p, x.m, x.e, sh.binary_search(&f).is_err())
                })
                .collect()
        })
        .collect();
    // fraction length of the result by scale
    let nf_of: Vec<Option<u32>> = (-lim..=lim).map(|s| frac_bits(n, es, s)).collect();
    let combos: Vec<(usize, usize)> = (0..menu.len()).flat_map(|i| (i..menu.len()).map(move |j| (i, j))).collect();
    // candidate = (scale, run, ones, structured, a, b)
    type Cand = (i16, u8, bool, bool, u32, u32);
    let chunks: Vec<Vec<Cand>> = std::thread::scope(|sc| {
        let hs: Vec<_> = (0..16usize)
            .map(|t| {
                let (lists, nf_of, combos) = (&lists, &nf_of, &combos);
                sc.spawn(move || {
                    let mut v: Vec<Cand> = vec![];
                    for (ci, &(i, j)) in combos.iter().enumerate() {
                        if ci % 16 != t {
                            continue;
                        }
                        for &(pa, ma, ea, ua) in &lists[i] {
                            for &(pb, mb, eb, ub) in &lists[j] {
                                let p = ma * mb;
                                let tz = p.trailing_zeros();
                                let p = p >> tz; // odd: the lowest product bit is significant
                                let l = 127 - p.leading_zeros();
                                let s = ea + eb + (tz + l) as i32;
                                if s.abs() >= lim {
                                    continue;
                                }
                                let Some(nf) = nf_of[(s + lim) as usize] else { continue };
                                if l < nf + 1 + zmin + 1 {
                                    continue;
                                }
                                let tw = l - nf - 1; // bits below the guard bit, the lowest of them is set
                                let tail = p & ((1u128 << tw) - 1);
                                let lead_ones = (tail << (128 - tw)).leading_ones().min(tw);
                                let lead_zeros = (tail << (128 - tw)).leading_zeros().min(tw);
                                let (r, ones) = if lead_ones > 0 { (lead_ones, true) } else { (lead_zeros, false) };
                                if r >= zmin && r < tw {
                                    v.push((s as i16, r as u8, ones, !(ua || ub), pa, pb));
                                }
                            }
                        }
                    }
                    v
                })
            })
            .collect();
        hs.into_iter().map(|h| h.join().unwrap()).collect()
    });
    let mut all: Vec<Cand> = chunks.into_iter().flatten().collect();
    all.sort();
    all.dedup();
    let mut v: Vec<(u32, u32)> = vec![];
    let mut i = 0;
    while i < all.len() {
        let key = (all[i].0, all[i].1, all[i].2);
        let mut j = i;
        while j < all.len() && (all[j].0, all[j].1, all[j].2) == key {
            j += 1;
        }
        // unstructured candidates sort first within the class; take evenly spaced members
        let cnt = j - i;
        let take = cnt.min(per_bucket);
        for t in 0..take {
            let c = all[i + t * cnt / take];
            v.push((c.4, c.5));
        }
        i = j;
    }
    v.sort();
    v.dedup();
    v
}

/// For every pair (a, b) with exact product P and every target boundary T (a representable value or the
/// midpoint of two adjacent posits): the addend c = RN(+-T - P) and its encoding neighbours, so that a*b + c is
/// within one unit in c's last place of the boundary and the rounding direction is decided by the lowest bits
/// of c (when c is far below the product) or of the product (when the product is far below c).
///   near targets: the three posits around RN(P), the two midpoints between them, and zero (c = -RN(P): massive
///                 cancellation, the result is the rounding residual of the product);
///   far targets : for j = 1..=jmax a posit with leading bit j binades above the product's (fraction from a
///                 small menu), itself and the midpoint above it, with both signs.
/// `nb` = number of encoding neighbours of c tried (odd). kind: 0 mul_add, 1 mul_sub, 2 sub_product (the sign of
/// c is adapted so that the effective operation is the same).
pub fn solve_space(n: u32, es: u32, pairs: Arc<Vec<(u32, u32)>>, jmax: u32, nfm: u32, nb: u32, kind: u8, what: &str) -> Space {
    let m = if n == 32 { u32::MAX } else { (1u32 << n) - 1 };
    let near = 6 * nb as u64;
    let far = jmax as u64 * nfm as u64 * 2 * 2 * nb as u64;
    let per = (near + far) * 2;
    let np = pairs.len() as u64;
    let lim = (n as i32 - 2) * (1 << es) - 1;
    let desc = format!(
        "{} ({} pairs) x addend solved so that a*b+c is within one unit of c's last place of a rounding boundary: 5 boundaries around RN(a*b), zero (cancellation down to the product's rounding residual) + (boundary with leading bit 1..={} binades above the product x {} fractions x {{posit, midpoint}} x sign), x {} encoding neighbours of c x sign of the triple",
        what, np, jmax, nfm, nb
    );
    Space::func(np * per, desc, move |i| {
        let (a, b) = pairs[(i / per) as usize];
        let r = i % per;
        let flip = r & 1 == 1;
        let r = r >> 1;
        let (Some(x), Some(y)) = (o::decode(n, es, a), o::decode(n, es, b)) else { return 0 };
        let p = o::mul(x, y);
        let rb = o::round_ex(n, es, p).0; // positive operands: a positive encoding
        let top = (1u32 << (n - 1)) - 1;
        let (target, d): (Option<o::Ex>, i32) = if r < near {
            let t = r / nb as u64;
            let d = (r % nb as u64) as i32 - (nb as i32) / 2;
            let tg = match t {
                0 => (rb > 1).then(|| o::decode(n, es, rb - 1)).flatten(),
                1 => o::decode(n, es, rb),
                2 => (rb < top).then(|| o::decode(n, es, rb + 1)).flatten(),
                3 => (rb > 1).then(|| o::decode64(n + 1, es, 2 * rb as u64 - 1)).flatten(),
                5 => Some(o::ZERO), // cancellation: c = -RN(a*b) and neighbours, the result is the product's rounding residual
                _ => (rb < top).then(|| o::decode64(n + 1, es, 2 * rb as u64 + 1)).flatten(),
            };
            (tg, d)
        } else {
            let mut w = r - near;
            let d = (w % nb as u64) as i32 - (nb as i32) / 2;
            w /= nb as u64;
            let sg = w & 1 == 1;
            w >>= 1;
            let mid = w & 1 == 1;
            w >>= 1;
            let fi = (w % nfm as u64) as u32;
            let j = (w / nfm as u64) as i32 + 1;
            let sp = p.e + (127 - p.m.leading_zeros() as i32);
            let sc = sp + j;
            if sc.abs() > lim {
                (None, d)
            } else {
                let xb = build(n, es, sc, |nf| {
                    let full = if nf == 0 { 0 } else { ((1u64 << nf) - 1) as u32 };
                    match fi {
                        0 => 0,
                        1 => 0x5555_5555 & full,
                        2 => full,
                        _ => 0x1234_5679 & full,
                    }
                });
                let tg = xb.and_then(|xb| if mid { if xb < top { o::decode64(n + 1, es, 2 * xb as u64 + 1) } else { None } } else { o::decode(n, es, xb) });
                (tg.map(|t| if sg { t.negate() } else { t }), d)
            }
        };
        let Some(t) = target else { return (a as u128) << 64 | (b as u128) << 32 | (1u128 << (n - 2)) };
        // mul_add form: a*b + c = T  =>  c = T - P
        let c0 = o::round_ex(n, es, o::sub(t, p)).0;
        let mut c = c0.wrapping_add(d as u32) & m;
        let mut a = a;
        if kind != 0 {
            c = c.wrapping_neg() & m; // a*b - c and -(c - a*b): the same effective operation with c negated
        }
        if flip {
            a = a.wrapping_neg() & m;
            c = c.wrapping_neg() & m;
        }
        (a as u128) << 64 | (b as u128) << 32 | c as u128
    })
}

/// plain unstructured operand pairs (fixed LCG sequence): positive posits of every scale with arbitrary fractions
pub fn unstructured_pairs(n: u32, es: u32, count: usize) -> Vec<(u32, u32)> {
    let mut st: u64 = 0xD1B5_4A32_D192_ED03 ^ ((n as u64) << 40) ^ ((es as u64) << 32);
    let mut next = || {
        st = st.wrapping_mul(6364136223846793005).wrapping_add(1442695040888963407);
        ((st >> 31) as u32) >> (33 - n) // n-1 bits: a positive pattern
    };
    let lim = (n as i32 - 2) * (1 << es);
    let mut v = vec![];
    while v.len() < count {
        let (a, b) = (next(), next());
        if a == 0 || b == 0 {
            continue;
        }
        // half of the pairs: both operands near one (full-length fractions)
        let (a, b) = if v.len() % 2 == 0 { (a, b) } else { ((1u32 << (n - 2)) ^ (a >> 3), (1u32 << (n - 2)) ^ (b >> 3)) };
        let (Some(x), Some(y)) = (o::decode(n, es, a), o::decode(n, es, b)) else { continue };
        let p = o::mul(x, y);
        let sp = p.e + (127 - p.m.leading_zeros() as i32);
        if sp.abs() < lim - 1 {
            v.push((a, b));
        }
    }
    v
}

// -------------------------------------------------------------------------------------------------
// "solve for the second operand" for + - * /
// -------------------------------------------------------------------------------------------------

/// positive operands: every fraction shape at a menu of scales + `extra` unstructured fractions per scale
pub fn operand_list(n: u32, es: u32, extra: u32) -> Vec<u32> {
    let lim = (n as i32 - 2) * (1 << es);
    let mut st: u64 = 0xA076_1D64_78BD_642F ^ ((n as u64) << 40) ^ ((es as u64) << 32);
    let mut v = vec![];
    let base = [0i32, 1, 2, 3, 4, 5, 7, 9, 12, 16, 20, 24, 30, 40, 52];
    for s in base.iter().flat_map(|&s| [s, -s]) {
        if s.abs() >= lim {
            continue;
        }
        let Some(nf) = frac_bits(n, es, s) else { continue };
        let mut fr = shapes(nf, false);
        if nf > 4 {
            for _ in 0..extra {
                st = st.wrapping_mul(6364136223846793005).wrapping_add(1442695040888963407);
                fr.push(((st >> 24) as u32) & (((1u64 << nf) - 1) as u32));
            }
        }
        for f in fr {
            v.push(build(n, es, s, |_| f).unwrap());
        }
    }
    v.sort();
    v.dedup();
    v
}

/// For every first operand a of the list and every target boundary T (a posit or the midpoint above it, at a
/// menu of scales, 4 fraction patterns, both signs) the second operand is solved for so that the exact result of
/// the operation is T up to the rounding of the solved operand: add: b = RN(T - a); sub: b = RN(a - T);
/// mul: b = RN(T / a); div: (RN(T * a), a). The solved operand is displaced by -nb/2..nb/2 encodings. For + and -
/// the target scales are the operand's scale + (-2..=31) (the exact result is then within one unit in b's last
/// place of the boundary, b overlapping a at every alignment); for * and / the target scales cover the whole range
/// (the exact result is within 2^-(fraction length of the solved operand) relative of the boundary — a small
/// fraction of the result's unit in the last place wherever the result's fraction is short).
pub fn bin_solve_space(n: u32, es: u32, op: u8, al: Arc<Vec<u32>>, nb: u32, what: &str) -> Space {
    let m = if n == 32 { u32::MAX } else { (1u32 << n) - 1 };
    let lim = (n as i32 - 2) * (1 << es) - 1;
    let scales: Vec<i32> = if op < 2 {
        (-2..=31).collect()
    } else {
        (-lim..=lim).filter(|s| s.abs() <= 8 || s.rem_euclid(3) == 0).collect()
    };
    let ns = scales.len() as u64;
    let per = ns * 4 * 2 * 2 * nb as u64 * 2;
    let na = al.len() as u64;
    let desc = format!(
        "{} ({} first operands) x target boundary (scale {} x 4 fractions x {{posit, midpoint}} x sign) x second operand solved for, displaced by {} encodings x sign of the pair",
        what,
        na,
        if op < 2 { "= operand scale + (-2..=31)".to_string() } else { format!("menu of {} over the whole range", ns) },
        nb
    );
    Space::func(na * per, desc, move |i| {
        let a = al[(i / per) as usize];
        let mut r = i % per;
        let flip = r & 1 == 1;
        r >>= 1;
        let d = (r % nb as u64) as i32 - (nb as i32) / 2;
        r /= nb as u64;
        let sg = r & 1 == 1;
        r >>= 1;
        let mid = r & 1 == 1;
        r >>= 1;
        let fi = (r & 3) as u32;
        r >>= 2;
        let sc0 = scales[r as usize];
        let Some(xa) = o::decode(n, es, a) else { return 0 };
        if xa.is_zero() {
            return 0;
        }
        let sa = xa.e + (127 - xa.m.leading_zeros() as i32);
        let sc = if op < 2 { sa + sc0 } else { sc0 };
        let top = (1u32 << (n - 1)) - 1;
        let fallback = (a as u128) << 32 | (1u128 << (n - 2));
        if sc.abs() > lim {
            return fallback;
        }
        let Some(xb) = build(n, es, sc, |nf| {
            let full = if nf == 0 { 0 } else { ((1u64 << nf) - 1) as u32 };
            match fi {
                0 => 0,
                1 => 0x5555_5555 & full,
                2 => full,
                _ => 0x1234_5679 & full,
            }
        }) else {
            return fallback;
        };
        let t = if mid { if xb < top { o::decode64(n + 1, es, 2 * xb as u64 + 1) } else { None } } else { o::decode(n, es, xb) };
        let Some(t) = t else { return fallback };
        let t = if sg { t.negate() } else { t };
        let solved = match op {
            0 => o::sub(t, xa),
            1 => o::sub(xa, t),
            2 => o::div(t, xa),
            _ => o::mul(t, xa),
        };
        if solved.is_zero() {
            return fallback;
        }
        let s0 = o::round_ex(n, es, solved).0;
        let s = s0.wrapping_add(d as u32) & m;
        let (mut x, y) = if op == 3 { (s, a) } else { (a, s) };
        let mut y = y;
        if flip {
            // negate both: add/sub results are negated, mul/div results unchanged
            x = x.wrapping_neg() & m;
            y = y.wrapping_neg() & m;
        }
        (x as u128) << 32 | y as u128
    })
}

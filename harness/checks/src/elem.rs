//! C11: P16E1 / P8E0 elementary functions against correctly rounded mpmath tables (complete domains).
use softposit::{P16E1, P8E0};
use std::sync::Arc;
use vpcore::{guard, CellDef, Out, Space};

fn load(dir: &str, name: &str, len: usize) -> Arc<Vec<u16>> {
    let path = format!("{dir}/tables/{name}.bin");
    let b = std::fs::read(&path).unwrap_or_else(|e| {
        eprintln!("C11: reference table {path} missing ({e}); run tables/gen_all.sh");
        std::process::exit(2)
    });
    assert_eq!(b.len(), 2 * len, "table {path} has the wrong size");
    Arc::new(b.chunks(2).map(|c| u16::from_le_bytes([c[0], c[1]])).collect())
}

pub fn c11(dir: &str) -> Vec<CellDef> {
    let mut v = vec![];
    let fs: [(&str, fn(P16E1) -> P16E1); 10] = [
        ("exp", |p| p.exp()),
        ("exp2", |p| p.exp2()),
        ("ln", |p| p.ln()),
        ("log2", |p| p.log2()),
        ("sin_pi", |p| p.sin_pi()),
        ("cos_pi", |p| p.cos_pi()),
        ("tan_pi", |p| p.tan_pi()),
        ("asin_pi", |p| p.asin_pi()),
        ("acos_pi", |p| p.acos_pi()),
        ("atan_pi", |p| p.atan_pi()),
    ];
    for (name, f) in fs {
        let t = load(dir, &format!("p16_{name}"), 65536);
        v.push(CellDef::new("C11", format!("P16E1/{name}"), Space::all(16), move |k| {
            let want = t[k as usize];
            Out::cmp(guard(|| f(P16E1::from_bits(k as u16)).to_bits() as u128), want as u128, want != 0 && want != 0x8000)
        }));
    }
    let f8: [(&str, fn(P8E0) -> P8E0); 2] = [("exp", |p| p.exp()), ("ln", |p| p.ln())];
    for (name, f) in f8 {
        let t = load(dir, &format!("p8_{name}"), 256);
        v.push(CellDef::new("C11", format!("P8E0/{name}"), Space::all(8), move |k| {
            let want = t[k as usize];
            Out::cmp(guard(|| f(P8E0::from_bits(k as u8)).to_bits() as u128), want as u128, want != 0 && want != 0x80)
        }));
    }
    v
}

//! C19: the random generator is the environment. A scripted RngCore replays enumerated word
//! sequences to `Standard.sample`; every answer the environment can give in the stated space is tried.
use crate::fx::Fx;
use rand::distributions::{Distribution, Standard};
use rand::RngCore;
use softposit::{P16E1, P32E2, P8E0};
use std::sync::atomic::{AtomicU64, Ordering};
use std::sync::Arc;
use vp_oracle as o;
use vpcore::{guard, CellDef, Extra, Out, Space};

/// scripted environment: returns w[0], w[1], ... ; past the script it keeps returning a fixed accepting word.
/// Counts how many words were drawn and through which entry point.
pub struct Script {
    pub w: [u32; 4],
    pub n: usize,
    pub i: usize,
    pub other_entry: u32,
}
impl RngCore for Script {
    fn next_u32(&mut self) -> u32 {
        let i = self.i;
        self.i += 1;
        if i < self.n {
            self.w[i]
        } else {
            0
        }
    }
    fn next_u64(&mut self) -> u64 {
        self.other_entry += 1;
        let lo = self.next_u32() as u64;
        let hi = self.next_u32() as u64;
        (hi << 32) | lo
    }
    fn fill_bytes(&mut self, d: &mut [u8]) {
        self.other_entry += 1;
        for c in d.chunks_mut(4) {
            let w = self.next_u32().to_le_bytes();
            c.copy_from_slice(&w[..c.len()]);
        }
    }
    fn try_fill_bytes(&mut self, d: &mut [u8]) -> Result<(), rand::Error> {
        self.fill_bytes(d);
        Ok(())
    }
}

/// 0 <= value < 1 and not NaR, by exact comparison
fn in01(n: u32, es: u32, bits: u32) -> bool {
    match o::decode(n, es, bits) {
        None => false,
        Some(v) => !v.neg && (v.is_zero() || o::cmp(v, o::Ex { neg: false, m: 1, e: 0, sticky: false }) == std::cmp::Ordering::Less),
    }
}

pub struct Stats {
    pub max_words: AtomicU64,
    pub other_entry: AtomicU64,
}

/// Words the sampler of type T refuses as its first draw, found at run time by driving the real sampler: a word
/// is refused when the sample consumes more words than it does for the always-accepted word 0. Candidates: a
/// fixed list, the top of the u32 range downwards, then a fixed LCG sequence. A sampler that never refuses
/// (none found) gets the fixed list (its words are then simply accepted and end the sample early).
fn refused_for<T: Fx>() -> [u32; 4]
where
    Standard: Distribution<T>,
{
    const FIXED: [u32; 4] = [0xffff_ffff, 0x0000_2010, 0xdead_bfff, 0x2000_0030];
    let st = Stats { max_words: AtomicU64::new(0), other_entry: AtomicU64::new(0) };
    let base = sample_one::<T>([0; 4], 1, &st).2;
    let mut found: Vec<u32> = vec![];
    let mut lcg: u64 = 0x1234_5678_9abc_def1;
    let cands = FIXED.iter().copied().chain((0..4096u32).map(|i| u32::MAX - i * 17)).chain((0..2_000_000u32).map(move |_| {
        lcg = lcg.wrapping_mul(6364136223846793005).wrapping_add(1442695040888963407);
        (lcg >> 32) as u32
    }));
    for w in cands {
        if found.len() == 4 {
            break;
        }
        if !found.contains(&w) && sample_one::<T>([w, 0, 0, 0], 1, &st).2 > base {
            found.push(w);
        }
    }
    if found.len() == 4 {
        [found[0], found[1], found[2], found[3]]
    } else {
        FIXED
    }
}

/// one sample under the script `w[..n]` (filler past the script: 0)
fn sample_one<T: Fx>(w: [u32; 4], n: usize, st: &Stats) -> (bool, u32, usize)
where
    Standard: Distribution<T>,
{
    let mut s = Script { w, n, i: 0, other_entry: 0 };
    let p: T = Standard.sample(&mut s);
    let used = s.i;
    if used as u64 > st.max_words.load(Ordering::Relaxed) {
        st.max_words.fetch_max(used as u64, Ordering::Relaxed);
    }
    if s.other_entry > 0 {
        st.other_entry.fetch_add(1, Ordering::Relaxed);
    }
    (in01(T::N, T::ES, p.tb()), p.tb(), used)
}

/// key = prefix_code << 64 | w2 << 32 | w1 ; prefix_code: 0 none, 1..=4 one refused word, 5..=20 two refused words
fn cell<T: Fx>(name: String, space: Space, words: usize, st: Arc<Stats>) -> CellDef
where
    Standard: Distribution<T>,
{
    #[allow(non_snake_case)]
    let REFUSED = refused_for::<T>();
    CellDef::new("C19", name, space, move |k| {
        let w1 = k as u32;
        let w2 = (k >> 32) as u32;
        let pc = (k >> 64) as usize;
        let mut w = [0u32; 4];
        let mut n = 0;
        if pc >= 5 {
            w[0] = REFUSED[(pc - 5) / 4];
            w[1] = REFUSED[(pc - 5) % 4];
            n = 2;
        } else if pc >= 1 {
            w[0] = REFUSED[pc - 1];
            n = 1;
        }
        let _npre = n;
        w[n] = w1;
        n += 1;
        if words == 2 {
            w[n.min(3)] = w2;
            n = (n + 1).min(4);
        }
        let r = guard(|| sample_one::<T>(w, n, &st));
        match r {
            Some((ok, bits, used)) => {
                Out { ok, nt: used > words, got: bits as u128, want: 0, ops: 1, panicked: false }
            }
            None => Out::cmp(None, 0, true),
        }
    })
}

/// prefix codes x a word space
fn with_prefixes(sp: Space, codes: Vec<u64>, what: &str) -> Space {
    let n = sp.len;
    let key = sp.key;
    let nc = codes.len() as u64;
    Space::func(n * nc, format!("{} x ({})", what, sp.desc), move |i| (codes[(i % nc) as usize] as u128) << 64 | key(i / nc))
}

fn first_words(thorough: bool) -> Space {
    if thorough {
        Space::all(32)
    } else {
        // every value of the top 24 bits with low byte 0 or 0xff, plus the top and bottom 2^16 words
        Space::func((1 << 25) + (1 << 17), "first RNG word: every value of the top 24 bits x low byte {00,ff}; plus the lowest and highest 2^16 words", |i| {
            if i < (1 << 25) {
                (((i >> 1) << 8) | if i & 1 == 1 { 0xff } else { 0 }) as u128
            } else {
                let j = i - (1 << 25);
                if j < (1 << 16) {
                    j as u128
                } else {
                    (0xffff_0000u64 + (j - (1 << 16))) as u128
                }
            }
        })
    }
}

pub fn c19(thorough: bool, extra: &mut Extra) -> Vec<CellDef> {
    let st = Arc::new(Stats { max_words: AtomicU64::new(0), other_entry: AtomicU64::new(0) });
    let mut v = vec![];
    // one-draw samplers: every first word; then every word again after one / two refused draws
    v.push(cell::<P8E0>("P8E0/sample".into(), first_words(thorough), 1, st.clone()));
    v.push(cell::<P16E1>("P16E1/sample".into(), first_words(thorough), 1, st.clone()));
    let pre1: Vec<u64> = (1..=4).collect();
    let pre2: Vec<u64> = if thorough { (5..=20).collect() } else { vec![5, 10, 15, 20] };
    v.push(cell::<P8E0>("P8E0/sample#after1".into(), with_prefixes(first_words(false), pre1.clone(), "4 refused-word prefixes"), 1, st.clone()));
    v.push(cell::<P16E1>("P16E1/sample#after1".into(), with_prefixes(first_words(thorough), pre1.clone(), "4 refused-word prefixes"), 1, st.clone()));
    v.push(cell::<P16E1>("P16E1/sample#after2".into(), with_prefixes(first_words(false), pre2.clone(), "two-refused-word prefixes"), 1, st.clone()));
    // P32E2 draws two words
    // second words: both ends of each quarter of the u32 range, and a run of k leading ones / zeros for k = 1..8 with the
    // rest zero / one (the top bits of a word decide a small range, the all-ones and all-zero tails its refusals)
    let mut seconds: Vec<u32> = vec![0, 0x3fff_ffff, 0x4000_0000, 0x7fff_ffff, 0x8000_0000, 0xbfff_ffff, 0xc000_0000, 0xffff_ffff, 0x1fff_ffff, 0x2000_0000, 0xdfff_ffff];
    for k in 1..=8u32 {
        let ones = !(u32::MAX >> k);
        seconds.extend([ones, ones | (u32::MAX >> (k + 1)), !ones, !ones & !(u32::MAX >> (k + 1))]);
    }
    seconds.sort();
    seconds.dedup();
    // every lattice first word x the whole second-word menu; the thorough tier adds every one of the 2^32 first words x
    // the ends of the quarters
    let w1space = |fw: Space, sec: Vec<u32>| {
        let (nf, fk, ns) = (fw.len, fw.key, sec.len() as u64);
        Space::func(nf * ns, format!("({}) x {} second words (ends of each quarter of the u32 range, runs of leading ones / zeros; refused and accepted)", fw.desc, ns), move |i| (sec[(i % ns) as usize] as u128) << 32 | fk(i / ns))
    };
    v.push(cell::<P32E2>("P32E2/sample#w1".into(), w1space(first_words(false), seconds.clone()), 2, st.clone()));
    if thorough {
        let base: Vec<u32> = vec![0, 0x3fff_ffff, 0x4000_0000, 0x7fff_ffff, 0x8000_0000, 0xbfff_ffff, 0xc000_0000, 0xffff_ffff, 0x1fff_ffff, 0x2000_0000, 0xdfff_ffff];
        v.push(cell::<P32E2>("P32E2/sample#w1all".into(), w1space(first_words(true), base), 2, st.clone()));
    }
    // first words: the ends of the range, and a run of k low ones for every k (with bit 4, which the 2^27-wide draw
    // refuses, also cleared): the produced fraction is then all ones below a leading zero run, where a rounding carry lives
    let mut firsts: Vec<u32> = vec![0, 1, 0x0f, 0x10, 0x1f, 0x20, 0x7fff_ffef, 0x8000_0000, 0xffff_ffcf, 0xffff_ffe0, 0xffff_ffef, 0xffff_ffff];
    for k in 6..=31u32 {
        let run = (1u32 << k) - 1;
        firsts.push(run & !0x10);
        if k % 4 == 0 {
            firsts.push(1u32 << k);
        }
    }
    firsts.sort();
    firsts.dedup();
    let sw = first_words(thorough);
    let nsw = sw.len;
    let sk = sw.key;
    let nfi = firsts.len() as u64;
    let sdesc = sw.desc.clone();
    v.push(cell::<P32E2>(
        "P32E2/sample#w2".into(),
        Space::func(nsw * nfi, format!("{} first words x second word in ({})", nfi, sdesc), move |i| (sk(i / nfi) << 32) | firsts[(i % nfi) as usize] as u128),
        2,
        st.clone(),
    ));
    // after a refused draw
    let fw2 = first_words(false);
    let nf2 = fw2.len;
    let fk2 = fw2.key;
    let sec2: Vec<u32> = vec![0, 0x4000_0000, 0x9fff_ffff, 0xdfff_ffff];
    v.push(cell::<P32E2>(
        "P32E2/sample#after1".into(),
        with_prefixes(Space::func(nf2 * 4, format!("({}) x 4 second words", fw2.desc), move |i| (sec2[(i % 4) as usize] as u128) << 32 | fk2(i / 4)), pre1, "4 refused-word prefixes"),
        2,
        st.clone(),
    ));
    let s2 = st.clone();
    extra.late_notes.push(Box::new(move || {
        format!(
            "environment: max RNG words drawn by one sample = {}; samples that used an entry point other than next_u32 = {}; a case counts as non-trivial when the sampler drew more words than the minimum, i.e. at least one scripted word was refused and a later word decided the result",
            s2.max_words.load(Ordering::Relaxed),
            s2.other_entry.load(Ordering::Relaxed)
        )
    }));
    v
}

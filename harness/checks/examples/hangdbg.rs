use softposit::P32E2;
fn main() {
    let which = std::env::args().nth(1).unwrap();
    let bits = u32::from_str_radix(&std::env::args().nth(2).unwrap(), 16).unwrap();
    let p = P32E2::from_bits(bits);
    let r = match which.as_str() {
        "exp" => p.exp(), "exp2" => p.exp2(), "ln" => p.ln(), "log2" => p.log2(), "log10" => p.log10(), "cbrt" => p.cbrt(),
        "sin" => p.sin(), "cos" => p.cos(), "tan" => p.tan(), "asin" => p.asin(), "acos" => p.acos(), "atan" => p.atan(),
        "exp_m1" => p.exp_m1(), "ln_1p" => p.ln_1p(), "sinh" => p.sinh(), "cosh" => p.cosh(), "tanh" => p.tanh(),
        "asinh" => p.asinh(), "acosh" => p.acosh(), "atanh" => p.atanh(), "sin_cos" => p.sin_cos().0, "powi" => p.powi(3),
        _ => panic!("?"),
    };
    println!("{which}({bits:#x}) = {:#x}", r.to_bits());
}

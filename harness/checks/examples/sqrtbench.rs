use softposit::P32E2;
use vpcore::refs;
fn main() {
    let t0 = std::time::Instant::now(); refs::fdec_selftest(); println!("fdec selftest ok {:.2}s", t0.elapsed().as_secs_f64());
    let n = 10_000_000u32;
    let t = std::time::Instant::now();
    let mut acc = 0u64;
    for i in 0..n { let a = 0x1000_0000 + i * 37; acc += P32E2::from_bits(a).sqrt().to_bits() as u64; }
    println!("real sqrt: {:.1} ns/case ({acc})", t.elapsed().as_nanos() as f64 / n as f64);
    let t = std::time::Instant::now();
    let mut acc = 0u64;
    for i in 0..n { let a = 0x1000_0000 + i * 37; acc += refs::sqrt(32, 2, a).0 as u64; }
    println!("refs::sqrt: {:.1} ns/case ({acc})", t.elapsed().as_nanos() as f64 / n as f64);
    let t = std::time::Instant::now();
    let mut acc = 0u64;
    for i in 0..n { let a = 0x1000_0000 + i * 37; let g = P32E2::from_bits(a).sqrt().to_bits(); acc += refs::sqrt_verify(32, 2, a, g).is_some() as u64; }
    println!("real + sqrt_verify: {:.1} ns/case ({acc})", t.elapsed().as_nanos() as f64 / n as f64);
    let t = std::time::Instant::now();
    let mut acc = 0u64;
    for i in 0..n { let a = 0x1000_0000 + i * 37; acc += vp_oracle::decode(32, 2, a).unwrap().m as u64; }
    println!("decode: {:.1} ns/case ({acc})", t.elapsed().as_nanos() as f64 / n as f64);
}
#[test]
fn t() {}

use vpchecks::deep::*;
fn main() {
    for z in [10u32, 12, 14, 16, 18] {
        let t = std::time::Instant::now();
        let p = pairs16(z);
        println!("P16 z={z}: {} pairs ({:.1}s) has m1 pair: {}", p.len(), t.elapsed().as_secs_f64(), p.contains(&(0x0149, 0x5979)));
    }
    for z in [16u32, 20, 24, 30] {
        let t = std::time::Instant::now();
        let p = pairs32(z, false);
        let q = pairs32(z, true);
        println!("P32 z={z}: coarse {} rich {} pairs ({:.1}s); m2 pair in rich: {}", p.len(), q.len(), t.elapsed().as_secs_f64(), q.contains(&(0x47FFC001, 0x00700040)));
    }
    println!("shapes(27): {} / {}", shapes(27,false).len(), shapes(27,true).len());
}

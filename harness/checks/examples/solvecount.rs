use vpchecks::deep::*;
fn main() {
    for (n, es, extra, zz, k) in [(16u32, 1u32, 150u32, 5u32, 3usize), (16, 1, 400, 5, 12), (32, 2, 300, 8, 3), (32, 2, 800, 8, 12), (32, 1, 200, 8, 2), (24, 2, 200, 7, 1)] {
        let t = std::time::Instant::now();
        let p = near_tie_pairs(n, es, extra, zz, k);
        println!("n={n} es={es} extra={extra} zmin={zz} per_bucket={k}: {} pairs ({:.1}s)", p.len(), t.elapsed().as_secs_f64());
    }
}

// brute-force search: random PxE1<32> pairs whose product is within 2^-12 (guard units) of a tie, c solved; compare
use softposit::PxE1;
use vp_oracle as o;
fn main() {
    let mut st: u64 = 12345;
    let mut rnd = || { st = st.wrapping_mul(6364136223846793005).wrapping_add(1442695040888963407); (st >> 32) as u32 };
    let (n, es) = (32u32, 1u32);
    let mut cand = 0u64; let mut bad = 0u64; let mut hist = [0u64; 80];
    for _ in 0..200_000_000u64 {
        let a = 0x7FE0_0000 | (rnd() >> 12);
        let b = 0x7FE0_0000 | (rnd() >> 12);
        let (Some(x), Some(y)) = (o::decode(n, es, a), o::decode(n, es, b)) else { continue };
        let p = o::mul(x, y);
        let rb = o::round_ex(n, es, p).0;
        if rb >= 0x7fff_fff0 { continue; }
        for t2 in [2 * rb as u64 - 1, 2 * rb as u64 + 1] {
            let Some(t) = o::decode64(n + 1, es, t2) else { continue };
            let cex = o::sub(t, p);
            if cex.is_zero() { continue; }
            let sp = p.e + 127 - p.m.leading_zeros() as i32;
            let sc = cex.e + 127 - cex.m.leading_zeros() as i32;
            if sp - sc < 33 { continue; }
            let c0 = o::round_ex(n, es, cex).0;
            for d in [-1i32, 0, 1] {
                let c = c0.wrapping_add(d as u32);
                cand += 1;
                hist[(sp - sc) as usize] += 1;
                let want = vpcore::refs::fma(n, es, 0, a, b, c).0;
                let got = PxE1::<32>::from_bits(a).mul_add(PxE1::<32>::from_bits(b), PxE1::<32>::from_bits(c)).to_bits();
                if got != want { bad += 1; if bad < 5 { println!("a={a:#x} b={b:#x} c={c:#x} got={got:#x} want={want:#x} shift={}", sp - sc); } }
            }
        }
    }
    println!("candidates={cand} bad={bad} hist(33..45)={:?}", &hist[33..45]);
}

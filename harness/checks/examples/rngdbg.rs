use rand::distributions::{Distribution, Standard};
use softposit::{P16E1, P8E0, P32E2};
use vpchecks::rng::Script;
fn main() {
    for w in [0u32, 1, 0x8000_0000, 0xffff_ffff] {
        let mut s = Script { w: [w, 0, 0, 0], n: 1, i: 0, other_entry: 0 };
        let p: P16E1 = Standard.sample(&mut s);
        println!("P16 w={w:#x} used={} other={} p={:#x}", s.i, s.other_entry, p.to_bits());
        let mut s = Script { w: [w, 0, 0, 0], n: 1, i: 0, other_entry: 0 };
        let p: P8E0 = Standard.sample(&mut s);
        println!("P8 w={w:#x} used={} other={} p={:#x}", s.i, s.other_entry, p.to_bits());
        let mut s = Script { w: [w, w, 0, 0], n: 2, i: 0, other_entry: 0 };
        let p: P32E2 = Standard.sample(&mut s);
        println!("P32 w={w:#x} used={} other={} p={:#x}", s.i, s.other_entry, p.to_bits());
    }
}

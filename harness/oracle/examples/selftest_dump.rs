//! Prints reference results of the Rust oracle for an independent re-computation by pymodel/posit.py
//! (scripts/oracle_selftest.py). Format: one case per line.
use vp_oracle as o;

fn bin(n: u32, es: u32, op: u8, a: u32, b: u32) -> u32 {
    let (Some(x), Some(y)) = (o::decode(n, es, a), o::decode(n, es, b)) else { return o::nar(n) };
    let v = match op {
        0 => o::add(x, y),
        1 => o::sub(x, y),
        2 => o::mul(x, y),
        _ => {
            if y.is_zero() {
                return o::nar(n);
            }
            o::div(x, y)
        }
    };
    o::round(n, es, v)
}

fn main() {
    // all P8E0 pairs x 4 ops
    for op in 0..4u8 {
        for a in 0..256u32 {
            for b in 0..256u32 {
                println!("bin 8 0 {} {} {} {}", op, a, b, bin(8, 0, op, a, b));
            }
        }
    }
    // a deterministic spread of P16E1 and P32E2 pairs and triples (LCG-generated, fixed)
    let mut s: u64 = 0x1234_5678_9abc_def1;
    let mut nx = || {
        s = s.wrapping_mul(6364136223846793005).wrapping_add(1442695040888963407);
        (s >> 32) as u32
    };
    for _ in 0..6000 {
        let (a, b, c) = (nx(), nx(), nx());
        for (n, es) in [(16u32, 1u32), (32, 2), (11, 2), (23, 1)] {
            let m = if n == 32 { u32::MAX } else { (1 << n) - 1 };
            // bias towards long regimes and sparse fractions
            let shape = |x: u32, k: u32| -> u32 { (if k & 1 == 1 { ((x as i32) >> (k % n.min(31))) as u32 } else { x }) & m };
            let (a, b, c) = (shape(a, c & 31), shape(b, (c >> 5) & 31), shape(c, (a >> 3) & 31));
            for op in 0..4u8 {
                println!("bin {} {} {} {} {} {}", n, es, op, a, b, bin(n, es, op, a, b));
            }
            if let (Some(x), Some(y), Some(z)) = (o::decode(n, es, a), o::decode(n, es, b), o::decode(n, es, c)) {
                println!("fma {} {} {} {} {} {}", n, es, a, b, c, o::round(n, es, o::add(o::mul(x, y), z)));
                if !x.neg {
                    println!("sqrt {} {} {} {}", n, es, a, o::round(n, es, o::sqrt(x)));
                }
            }
        }
        let f = f64::from_bits(((a as u64) << 32) | b as u64);
        if let Some(v) = o::from_f64(f) {
            println!("f64 {} {} {} {}", ((a as u64) << 32) | b as u64, o::round(8, 0, v), o::round(16, 1, v), o::round(32, 2, v));
        }
    }
}

//! Independent exact reference model for posit arithmetic. Shares no code with softposit.
//! A real value is (neg, m, e, sticky): value = (-1)^neg * (m + s) * 2^e with 0<=s<1, s>0 iff sticky.

#[derive(Clone, Copy, Debug, PartialEq, Eq)]
pub struct Ex {
    pub neg: bool,
    pub m: u128,
    pub e: i32,
    pub sticky: bool,
}

pub const ZERO: Ex = Ex { neg: false, m: 0, e: 0, sticky: false };

impl Ex {
    pub fn is_zero(&self) -> bool {
        self.m == 0 && !self.sticky
    }
    pub fn negate(mut self) -> Ex {
        if !self.is_zero() {
            self.neg = !self.neg;
        }
        self
    }
}

/// Decode an N-bit posit (right-aligned in `bits`, N<=32) with `es` exponent bits.
/// Returns None for NaR.
pub fn decode(n: u32, es: u32, bits: u32) -> Option<Ex> {
    decode64(n, es, bits as u64)
}

/// Decode an N-bit posit for N <= 48 (used for the (N+1)-bit midpoints between adjacent posits).
pub fn decode64(n: u32, es: u32, bits: u64) -> Option<Ex> {
    let mask: u64 = (1u64 << n) - 1;
    let bits = bits & mask;
    if bits == 0 {
        return Some(ZERO);
    }
    let sign_bit = 1u64 << (n - 1);
    if bits == sign_bit {
        return None;
    }
    let neg = bits & sign_bit != 0;
    let mag = if neg { bits.wrapping_neg() & mask } else { bits };
    let body_len = n - 1;
    let body = mag & (sign_bit - 1);
    // i = 0 is the top body bit
    let bit = |i: u32| -> u64 {
        if i >= body_len {
            0
        } else {
            (body >> (body_len - 1 - i)) & 1
        }
    };
    let r0 = bit(0);
    let mut run = 1;
    while run < body_len && bit(run) == r0 {
        run += 1;
    }
    let k: i32 = if r0 == 1 { run as i32 - 1 } else { -(run as i32) };
    // position after the terminator
    let mut pos = run + 1;
    let mut ex: u32 = 0;
    for _ in 0..es {
        ex = (ex << 1) | bit(pos) as u32;
        pos += 1;
    }
    let nfrac = if pos < body_len { body_len - pos } else { 0 };
    let frac = if nfrac > 0 { body & ((1u64 << nfrac) - 1) } else { 0 };
    let m = ((1u128) << nfrac) | frac as u128;
    let scale = k * (1 << es) + ex as i32;
    Some(Ex { neg, m, e: scale - nfrac as i32, sticky: false })
}

/// Round an exact value to an N-bit posit by the posit-standard rule:
/// round-to-nearest-even on the (unbounded) encoding, saturating at maxpos/minpos,
/// never to zero / NaR. Result right-aligned in N bits.
pub fn round_ex(n: u32, es: u32, v: Ex) -> (u32, bool) {
    let mask: u32 = if n == 32 { u32::MAX } else { (1u32 << n) - 1 };
    if v.is_zero() {
        return (0, false);
    }
    let (mut m, mut e, mut sticky) = (v.m, v.e, v.sticky);
    if m == 0 {
        // pure sticky: an infinitesimal positive amount -> below every posit: minpos
        let p = 1u32;
        return (if v.neg { p.wrapping_neg() & mask } else { p }, true);
    }
    // normalise to msb at bit 63
    let t = 127 - m.leading_zeros() as i32;
    if t > 63 {
        let sh = (t - 63) as u32;
        if m & ((1u128 << sh) - 1) != 0 {
            sticky = true;
        }
        m >>= sh;
        e += sh as i32;
    } else if t < 63 {
        let sh = (63 - t) as u32;
        m <<= sh;
        e -= sh as i32;
    }
    let scale = e + 63;
    let useed_pow = 1i32 << es;
    let k = scale.div_euclid(useed_pow);
    let ex = scale.rem_euclid(useed_pow) as u128;
    let maxk = n as i32 - 2;
    let p: u32;
    let mut inexact = true;
    if n == 2 {
        // only 0, 1(=01), NaR, -1: everything non-zero rounds to +-1 ... minpos=maxpos=1
        p = 1;
    } else if k >= maxk {
        p = (1u32 << (n - 1)) - 1;
    } else if k < -maxk {
        p = 1;
    } else {
        let (rbits, rl): (u128, u32) = if k >= 0 {
            // k+1 ones then zero
            ((((1u128 << (k + 1)) - 1) << 1), (k + 2) as u32)
        } else {
            (1u128, (-k + 1) as u32)
        };
        let frac63 = m & ((1u128 << 63) - 1);
        let mut body: u128 = rbits << (128 - rl);
        if es > 0 {
            body |= ex << (128 - rl - es);
        }
        body |= frac63 << (128 - rl - es - 63);
        let keep = n - 1;
        let mut q = (body >> (128 - keep)) as u32;
        let guard = (body >> (128 - keep - 1)) & 1 != 0;
        let rest = (body & ((1u128 << (128 - keep - 1)) - 1)) != 0 || sticky;
        inexact = guard || rest;
        if guard && (rest || (q & 1) != 0) {
            q += 1;
        }
        if q == 0 {
            q = 1;
        }
        if q >= (1u32 << (n - 1)) {
            q = (1u32 << (n - 1)) - 1;
        }
        p = q;
    }
    if v.neg {
        (p.wrapping_neg() & mask, inexact)
    } else {
        (p, inexact)
    }
}

/// Round an exact value to an N-bit posit by the posit-standard rule:
/// round-to-nearest-even on the (unbounded) encoding, saturating at maxpos/minpos,
/// never to zero / NaR. Result right-aligned in N bits.
pub fn round(n: u32, es: u32, v: Ex) -> u32 {
    round_ex(n, es, v).0
}


fn norm_small(x: Ex) -> Ex {
    // strip trailing zeros to keep mantissas small
    if x.m == 0 {
        return x;
    }
    let tz = x.m.trailing_zeros();
    Ex { neg: x.neg, m: x.m >> tz, e: x.e + tz as i32, sticky: x.sticky }
}

/// exact a+b for non-sticky inputs with mantissas < 2^64
pub fn add(a: Ex, b: Ex) -> Ex {
    if a.is_zero() {
        return b;
    }
    if b.is_zero() {
        return a;
    }
    let a = norm_small(a);
    let b = norm_small(b);
    debug_assert!(!a.sticky && !b.sticky);
    let bl = |m: u128| 128 - m.leading_zeros() as i32;
    assert!(bl(a.m) <= 64 && bl(b.m) <= 64);
    let ta = a.e + bl(a.m) - 1;
    let tb = b.e + bl(b.m) - 1;
    let (big, small) = if ta >= tb { (a, b) } else { (b, a) };
    let hi = ta.max(tb);
    let lo = a.e.min(b.e);
    if hi - lo + 1 <= 126 {
        let mb = big.m << (big.e - lo) as u32;
        let ms = small.m << (small.e - lo) as u32;
        return if big.neg == small.neg {
            Ex { neg: big.neg, m: mb + ms, e: lo, sticky: false }
        } else if mb == ms {
            ZERO
        } else if mb > ms {
            Ex { neg: big.neg, m: mb - ms, e: lo, sticky: false }
        } else {
            Ex { neg: small.neg, m: ms - mb, e: lo, sticky: false }
        };
    }
    // far apart: lo == small.e < big.e. Put big's msb at bit 125 and fold the tail of small into sticky.
    let sh = (125 - (bl(big.m) - 1)) as u32;
    let mb = big.m << sh;
    let eb = big.e - sh as i32;
    let cut = eb - small.e;
    assert!(cut > 0);
    let (ms_hi, lost) = if cut >= 128 {
        (0u128, true)
    } else {
        (small.m >> cut as u32, small.m & ((1u128 << cut as u32) - 1) != 0)
    };
    if big.neg == small.neg {
        Ex { neg: big.neg, m: mb + ms_hi, e: eb, sticky: lost }
    } else if lost {
        Ex { neg: big.neg, m: mb - ms_hi - 1, e: eb, sticky: true }
    } else {
        Ex { neg: big.neg, m: mb - ms_hi, e: eb, sticky: false }
    }
}

pub fn sub(a: Ex, b: Ex) -> Ex {
    add(a, b.negate())
}

pub fn mul(a: Ex, b: Ex) -> Ex {
    if a.is_zero() || b.is_zero() {
        return ZERO;
    }
    let a = norm_small(a);
    let b = norm_small(b);
    assert!(a.m < (1u128 << 64) && b.m < (1u128 << 64));
    Ex { neg: a.neg ^ b.neg, m: a.m * b.m, e: a.e + b.e, sticky: false }
}

/// a / b, b != 0; mantissas < 2^33
pub fn div(a: Ex, b: Ex) -> Ex {
    if a.is_zero() {
        return ZERO;
    }
    let a = norm_small(a);
    let b = norm_small(b);
    assert!(a.m < (1u128 << 34) && b.m < (1u128 << 34));
    let num = a.m << 90;
    let q = num / b.m;
    let r = num % b.m;
    Ex { neg: a.neg ^ b.neg, m: q, e: a.e - 90 - b.e, sticky: r != 0 }
}

fn isqrt(n: u128) -> u128 {
    if n == 0 {
        return 0;
    }
    let mut x = (n as f64).sqrt() as u128;
    // fix up
    loop {
        if x.checked_mul(x).map_or(true, |v| v > n) {
            x -= 1;
        } else if (x + 1).checked_mul(x + 1).map_or(false, |v| v <= n) {
            x += 1;
        } else {
            return x;
        }
    }
}

/// sqrt(a), a >= 0, mantissa < 2^34
pub fn sqrt(a: Ex) -> Ex {
    if a.is_zero() {
        return ZERO;
    }
    let a = norm_small(a);
    assert!(!a.neg && a.m < (1u128 << 34));
    let mut m = a.m << 88;
    let mut e = a.e - 88;
    if e & 1 != 0 {
        m <<= 1;
        e -= 1;
    }
    let s = isqrt(m);
    Ex { neg: false, m: s, e: e / 2, sticky: s * s != m }
}

pub fn from_f64(x: f64) -> Option<Ex> {
    if !x.is_finite() {
        return None;
    }
    if x == 0.0 {
        return Some(ZERO);
    }
    let b = x.to_bits();
    let neg = b >> 63 != 0;
    let ebits = ((b >> 52) & 0x7ff) as i32;
    let frac = b & ((1u64 << 52) - 1);
    let (m, e) = if ebits == 0 { (frac, -1074) } else { (frac | (1u64 << 52), ebits - 1075) };
    Some(Ex { neg, m: m as u128, e, sticky: false })
}

pub fn to_f64_exact(v: Ex) -> f64 {
    // only for values exactly representable
    let v = norm_small(v);
    assert!(v.m < (1u128 << 53) && !v.sticky);
    let f = v.m as f64 * (2.0f64).powi(v.e);
    if v.neg {
        -f
    } else {
        f
    }
}


// ---------------------------------------------------------------------------------------------
// Extras: comparison, integer rounding, IEEE rounding, wide integers
// ---------------------------------------------------------------------------------------------

pub fn nar(n: u32) -> u32 {
    1u32 << (n - 1)
}

/// reduce a mantissa that may be up to 128 bits to < 2^64 when that is exact; otherwise keep top bits + sticky
pub fn shrink(v: Ex) -> Ex {
    if v.m == 0 {
        return v;
    }
    let tz = v.m.trailing_zeros();
    let mut m = v.m >> tz;
    let mut e = v.e + tz as i32;
    let mut sticky = v.sticky;
    let bl = 128 - m.leading_zeros();
    if bl > 64 {
        let sh = bl - 64;
        if m & ((1u128 << sh) - 1) != 0 {
            sticky = true;
        }
        m >>= sh;
        e += sh as i32;
    }
    Ex { neg: v.neg, m, e, sticky }
}

/// compare two exact values (no sticky)
pub fn cmp(a: Ex, b: Ex) -> core::cmp::Ordering {
    use core::cmp::Ordering::*;
    let d = sub(a, b);
    if d.is_zero() {
        Equal
    } else if d.neg {
        Less
    } else {
        Greater
    }
}

/// exact value of an integer
pub fn from_i128(v: i128) -> Ex {
    Ex { neg: v < 0, m: v.unsigned_abs(), e: 0, sticky: false }
}

/// floor of an exact (non-sticky) value, as i128; |value| must be < 2^120
pub fn floor_int(v: Ex) -> i128 {
    if v.is_zero() {
        return 0;
    }
    assert!(!v.sticky);
    if v.e >= 0 {
        let bl = 128 - v.m.leading_zeros() as i32;
        assert!(bl + v.e <= 120);
        let mag = (v.m as i128) << v.e as u32;
        return if v.neg { -mag } else { mag };
    }
    let sh = (-v.e) as u32;
    let (q, rem) = if sh >= 128 { (0i128, v.m != 0) } else { ((v.m >> sh) as i128, v.m & ((1u128 << sh) - 1) != 0) };
    if v.neg {
        if rem {
            -q - 1
        } else {
            -q
        }
    } else {
        q
    }
}

pub fn is_int(v: Ex) -> bool {
    if v.is_zero() || v.e >= 0 {
        return true;
    }
    let sh = (-v.e) as u32;
    sh < 128 && v.m & ((1u128 << sh) - 1) == 0
}

/// nearest integer, ties to even; |value| must be < 2^120 (larger magnitudes return +-2^120)
pub fn rne_int(v: Ex) -> i128 {
    if v.is_zero() {
        return 0;
    }
    assert!(!v.sticky);
    let mag: i128 = if v.e >= 0 {
        let bl = 128 - v.m.leading_zeros() as i32;
        if bl + v.e > 120 {
            1i128 << 120
        } else {
            (v.m as i128) << v.e as u32
        }
    } else {
        let sh = (-v.e) as u32;
        if sh >= 128 {
            0
        } else {
            let q = (v.m >> sh) as i128;
            let rem = v.m & ((1u128 << sh) - 1);
            let half = 1u128 << (sh - 1);
            if rem > half || (rem == half && (q & 1) == 1) {
                q + 1
            } else {
                q
            }
        }
    };
    if v.neg {
        -mag
    } else {
        mag
    }
}

pub fn from_f32(x: f32) -> Option<Ex> {
    from_f64(x as f64) // every f32 (incl. subnormals) is exactly an f64
}

/// IEEE-754 binary32 round-to-nearest-even of an exact value (overflow -> inf), as bits
pub fn to_f32_rne_bits(v: Ex) -> u32 {
    if v.is_zero() {
        return 0;
    }
    let sign = if v.neg { 0x8000_0000u32 } else { 0 };
    let v = shrink(v);
    let bl = 128 - v.m.leading_zeros() as i32; // <= 64
    let top = v.e + bl - 1; // value in [2^top, 2^(top+1))
    // target quantum exponent
    let q = if top < -126 { -149 } else { top - 23 };
    // mantissa = value / 2^q rounded RNE
    let sh = q - v.e;
    let (mut mant, rem_gt, rem_eq): (u128, bool, bool) = if sh <= 0 {
        (v.m << (-sh) as u32, false, false)
    } else if sh >= 128 {
        (0, false, false)
    } else {
        let sh = sh as u32;
        let rem = v.m & ((1u128 << sh) - 1);
        let half = 1u128 << (sh - 1);
        (v.m >> sh, rem > half || (rem == half && v.sticky), rem == half && !v.sticky)
    };
    let below_half_sticky = sh >= 128 || (sh > 0 && !rem_gt && !rem_eq);
    let _ = below_half_sticky;
    if rem_gt || (rem_eq && (mant & 1) == 1) {
        mant += 1;
    }
    let mut qq = q;
    if mant >= (1u128 << 24) {
        mant >>= 1;
        qq += 1;
    }
    if mant == 0 {
        return sign;
    }
    if mant < (1u128 << 23) {
        // subnormal
        return sign | mant as u32;
    }
    let exp = qq + 23 + 127;
    if exp >= 255 {
        return sign | 0x7f80_0000;
    }
    sign | ((exp as u32) << 23) | (mant as u32 & 0x7f_ffff)
}

/// exact conversion to f64 when representable (mantissa <= 53 bits and exponent in range)
pub fn to_f64_bits_exact(v: Ex) -> Option<u64> {
    if v.is_zero() {
        return Some(0);
    }
    if v.sticky {
        return None;
    }
    let v = norm_small(v);
    let bl = 128 - v.m.leading_zeros() as i32;
    if bl > 53 {
        return None;
    }
    let top = v.e + bl - 1;
    if top > 1023 || v.e < -1074 {
        return None;
    }
    let sign = if v.neg { 1u64 << 63 } else { 0 };
    if top < -1022 {
        // subnormal
        let m = (v.m as u64) << (v.e + 1074) as u32;
        return Some(sign | m);
    }
    let m = (v.m as u64) << (52 - (bl - 1)) as u32;
    Some(sign | (((top + 1023) as u64) << 52) | (m & ((1u64 << 52) - 1)))
}

/// 512-bit two's-complement integer, little-endian limbs (w[0] least significant)
#[derive(Clone, Copy, PartialEq, Eq, Debug, Hash)]
pub struct W512(pub [u64; 8]);

impl W512 {
    pub const ZERO: W512 = W512([0; 8]);
    pub fn from_be(b: [u64; 8]) -> W512 {
        let mut w = [0u64; 8];
        for i in 0..8 {
            w[i] = b[7 - i];
        }
        W512(w)
    }
    pub fn to_be(self) -> [u64; 8] {
        let mut b = [0u64; 8];
        for i in 0..8 {
            b[i] = self.0[7 - i];
        }
        b
    }
    pub fn is_neg(self) -> bool {
        self.0[7] >> 63 != 0
    }
    pub fn is_zero(self) -> bool {
        self.0.iter().all(|&x| x == 0)
    }
    pub fn add(self, o: W512) -> W512 {
        let mut r = [0u64; 8];
        let mut c = 0u64;
        for i in 0..8 {
            let (s1, c1) = self.0[i].overflowing_add(o.0[i]);
            let (s2, c2) = s1.overflowing_add(c);
            r[i] = s2;
            c = (c1 | c2) as u64;
        }
        W512(r)
    }
    pub fn neg(self) -> W512 {
        let mut r = [0u64; 8];
        for i in 0..8 {
            r[i] = !self.0[i];
        }
        W512(r).add(W512([1, 0, 0, 0, 0, 0, 0, 0]))
    }
    pub fn sub(self, o: W512) -> W512 {
        self.add(o.neg())
    }
    /// m * 2^sh as a 512-bit integer (m < 2^128); None when it does not fit in 511 bits
    pub fn from_shifted(m: u128, sh: u32) -> Option<W512> {
        if m == 0 {
            return Some(W512::ZERO);
        }
        let bl = 128 - m.leading_zeros();
        if bl + sh > 511 {
            return None;
        }
        let mut r = [0u64; 8];
        let limb = (sh / 64) as usize;
        let off = sh % 64;
        let parts = [(m as u64), (m >> 64) as u64];
        for (j, p) in parts.iter().enumerate() {
            if *p == 0 {
                continue;
            }
            let idx = limb + j;
            if idx < 8 {
                r[idx] |= p << off;
            }
            if off != 0 && idx + 1 < 8 {
                r[idx + 1] |= p >> (64 - off);
            }
        }
        Some(W512(r))
    }
    pub fn bit_len(self) -> u32 {
        for i in (0..8).rev() {
            if self.0[i] != 0 {
                return i as u32 * 64 + 64 - self.0[i].leading_zeros();
            }
        }
        0
    }
    /// |self| * 2^(-frac_bits) as an Ex (top 120 bits + sticky)
    pub fn to_ex(self, frac_bits: u32) -> Ex {
        if self.is_zero() {
            return ZERO;
        }
        let neg = self.is_neg();
        let a = if neg { self.neg() } else { self };
        let bl = a.bit_len();
        let (m, e, sticky) = if bl <= 120 {
            ((a.0[0] as u128) | ((a.0[1] as u128) << 64), 0i32, false)
        } else {
            let sh = bl - 120;
            let mut m: u128 = 0;
            for k in 0..120 {
                let bit = sh + k;
                let b = (a.0[(bit / 64) as usize] >> (bit % 64)) & 1;
                m |= (b as u128) << k;
            }
            let mut sticky = false;
            for bit in 0..sh {
                if (a.0[(bit / 64) as usize] >> (bit % 64)) & 1 != 0 {
                    sticky = true;
                    break;
                }
            }
            (m, sh as i32, sticky)
        };
        Ex { neg, m, e: e - frac_bits as i32, sticky }
    }
}

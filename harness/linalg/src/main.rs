//! Engine for the `linalg::quire_dot` part of C04: every entry of a matrix product computed with
//! `QuireDot` is the fused dot product of a row and a column, rounded once.
use nalgebra::{Matrix2, Matrix2x3, Matrix3x2, RowVector3, Vector3};
use softposit::{QuireDot, P16E1, P32E2, P8E0};
use vp_oracle as o;
use vp_oracle::W512;
use vpcore::{guard, run_cells, CellDef, Cfg, Extra, Out, Report, Space};

fn prod(n: u32, es: u32, a: u32, b: u32) -> Option<W512> {
    let (Some(x), Some(y)) = (o::decode(n, es, a), o::decode(n, es, b)) else { return None };
    let p = o::mul(x, y);
    if p.is_zero() {
        return Some(W512::ZERO);
    }
    let w = W512::from_shifted(p.m, (p.e + 240) as u32).expect("fits");
    Some(if p.neg { w.neg() } else { w })
}

/// exact dot product rounded once (a 512-bit accumulator with 240 fraction bits holds every format here)
fn fused(n: u32, es: u32, terms: &[(u32, u32)]) -> u32 {
    let mut acc = W512::ZERO;
    for &(a, b) in terms {
        match prod(n, es, a, b) {
            None => return o::nar(n),
            Some(w) => acc = acc.add(w),
        }
    }
    o::round(n, es, acc.to_ex(240))
}

fn operands(n: u32) -> Vec<u32> {
    let m = if n == 32 { u32::MAX } else { (1u32 << n) - 1 };
    let one = 1u32 << (n - 2);
    // minpos, maxpos, +-1, 1+ulp, just below 2 (es-independent approximation: one + one/2 - 1 is a dense fraction), a mid value, 0
    vec![0, 1, (1u32 << (n - 1)) - 1, one, one.wrapping_neg() & m, one + 1, (one + (one >> 1) - 1), (one >> 1) | 5]
}

macro_rules! cells_for {
    ($v:ident, $P:ty, $U:ty, $n:expr, $es:expr, $name:literal) => {{
        let ops = operands($n);
        let k = ops.len() as u64;
        let fb = |b: u32| <$P>::from_bits(b as $U);
        // 2x2 * 2x2 : 8 entries
        {
            let ops = ops.clone();
            $v.push(CellDef::new("C04", format!("{}/quire_dot 2x2*2x2", $name), Space::func(k.pow(8), format!("all 2x2 x 2x2 matrices over {} operands (0, minpos, maxpos, +-1, 1+ulp, dense fractions)", k), |i| i as u128), move |key| {
                let mut e = [0u32; 8];
                let mut r = key as u64;
                for x in e.iter_mut() {
                    *x = ops[(r % k) as usize];
                    r /= k;
                }
                let a = Matrix2::new(fb(e[0]), fb(e[1]), fb(e[2]), fb(e[3]));
                let b = Matrix2::new(fb(e[4]), fb(e[5]), fb(e[6]), fb(e[7]));
                let want = [
                    fused($n, $es, &[(e[0], e[4]), (e[1], e[6])]),
                    fused($n, $es, &[(e[0], e[5]), (e[1], e[7])]),
                    fused($n, $es, &[(e[2], e[4]), (e[3], e[6])]),
                    fused($n, $es, &[(e[2], e[5]), (e[3], e[7])]),
                ];
                let got = guard(|| {
                    let c = a.quire_dot(&b);
                    [c[(0, 0)].to_bits() as u32, c[(0, 1)].to_bits() as u32, c[(1, 0)].to_bits() as u32, c[(1, 1)].to_bits() as u32]
                });
                let pack = |w: [u32; 4]| (w[0] as u128) | (w[1] as u128) << 32 | (w[2] as u128) << 64 | (w[3] as u128) << 96;
                Out::cmp(got.map(pack), pack(want), true).ops(1)
            }));
        }
        // 1x3 * 3x1 (a plain dot product of length 3) and 2x3 * 3x2
        {
            let ops = ops.clone();
            $v.push(CellDef::new("C04", format!("{}/quire_dot 1x3*3x1", $name), Space::func(k.pow(6), format!("all row x column vectors of length 3 over {} operands", k), |i| i as u128), move |key| {
                let mut e = [0u32; 6];
                let mut r = key as u64;
                for x in e.iter_mut() {
                    *x = ops[(r % k) as usize];
                    r /= k;
                }
                let a = RowVector3::new(fb(e[0]), fb(e[1]), fb(e[2]));
                let b = Vector3::new(fb(e[3]), fb(e[4]), fb(e[5]));
                let want = fused($n, $es, &[(e[0], e[3]), (e[1], e[4]), (e[2], e[5])]);
                let got = guard(|| a.quire_dot(&b)[(0, 0)].to_bits() as u128);
                Out::cmp(got, want as u128, true)
            }));
        }
        {
            let ops2: Vec<u32> = ops.iter().copied().step_by(2).collect();
            let k2 = ops2.len() as u64;
            $v.push(CellDef::new("C04", format!("{}/quire_dot 2x3*3x2", $name), Space::func(k2.pow(12), format!("all 2x3 x 3x2 matrices over {} operands", k2), |i| i as u128), move |key| {
                let mut e = [0u32; 12];
                let mut r = key as u64;
                for x in e.iter_mut() {
                    *x = ops2[(r % k2) as usize];
                    r /= k2;
                }
                let a = Matrix2x3::new(fb(e[0]), fb(e[1]), fb(e[2]), fb(e[3]), fb(e[4]), fb(e[5]));
                let b = Matrix3x2::new(fb(e[6]), fb(e[7]), fb(e[8]), fb(e[9]), fb(e[10]), fb(e[11]));
                let mut want = [0u32; 4];
                for i in 0..2 {
                    for j in 0..2 {
                        want[i * 2 + j] = fused($n, $es, &[(e[i * 3], e[6 + j]), (e[i * 3 + 1], e[8 + j]), (e[i * 3 + 2], e[10 + j])]);
                    }
                }
                let got = guard(|| {
                    let c = a.quire_dot(&b);
                    [c[(0, 0)].to_bits() as u32, c[(0, 1)].to_bits() as u32, c[(1, 0)].to_bits() as u32, c[(1, 1)].to_bits() as u32]
                });
                let pack = |w: [u32; 4]| (w[0] as u128) | (w[1] as u128) << 32 | (w[2] as u128) << 64 | (w[3] as u128) << 96;
                Out::cmp(got.map(pack), pack(want), true)
            }));
        }
    }};
}

fn main() {
    let cfg = Cfg::from_args();
    let mut cells: Vec<CellDef> = vec![];
    if cfg.prop != "C04" {
        eprintln!("vplinalg serves the quire_dot part of C04 only");
        std::process::exit(2);
    }
    cells_for!(cells, P8E0, u8, 8, 0, "P8E0");
    cells_for!(cells, P16E1, u16, 16, 1, "P16E1");
    cells_for!(cells, P32E2, u32, 32, 2, "P32E2");
    let rep = Report {
        rule: "every matrix pair over the operand alphabet is multiplied with QuireDot::quire_dot; every entry must be the exact dot product of its row and column rounded once (NaR if an operand is NaR)".into(),
        assumptions: vec!["nalgebra 0.31 indexes matrices as documented".into(), "the reference model (vp_oracle)".into()],
        bound: format!("all cells complete ({} tier)", cfg.tier),
    };
    std::process::exit(run_cells(&cfg, cells, Extra::default(), rep));
}

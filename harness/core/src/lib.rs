//! vpcore — runtime of the bounded-exhaustive explorers.
//!
//! A *cell* is (property, type, operation) together with a finite, indexable space of cases and a
//! case function that runs the real code on one case, asks the reference model, and reports.
//! `run_cells` enumerates every case of every cell on all cores, with
//!   * `catch_unwind` around the real call (a panic is an outcome, not a crash),
//!   * a watchdog that turns non-termination into a verdict naming the input,
//!   * known-finding matching on the case key (exact key sets / whole call sites),
//!   * an order-independent digest of the result stream (used by C16 to compare build profiles),
//!   * evidence and replay files.
//! This crate does not depend on softposit, so it is never rebuilt when /repo changes.

pub mod alpha;
pub mod refs;

use serde_json::{json, Value};
use std::cell::RefCell;
use std::collections::BTreeMap;
use std::sync::atomic::{AtomicBool, AtomicU64, Ordering};
use std::sync::Mutex;
use std::time::{Duration, Instant};

pub const PANIC: u128 = u128::MAX;
pub const CHUNK: u64 = 1 << 14;

/// Result of one case.
#[derive(Clone, Copy, Debug)]
pub struct Out {
    /// implementation agreed with the reference model
    pub ok: bool,
    /// the case is "non-trivial" by the cell's rule (needed rounding, saturation, special value, carry ...)
    pub nt: bool,
    /// observed value (PANIC when the real code unwound)
    pub got: u128,
    /// value the reference model demands
    pub want: u128,
    /// number of calls into the real code made by this case
    pub ops: u32,
    /// the real code unwound (panic) instead of returning
    pub panicked: bool,
}

impl Out {
    #[inline]
    pub fn cmp(got: Option<u128>, want: u128, nt: bool) -> Out {
        match got {
            Some(g) => Out { ok: g == want, nt, got: g, want, ops: 1, panicked: false },
            None => Out { ok: false, nt, got: PANIC, want, ops: 1, panicked: true },
        }
    }
    /// a case the property does not constrain (precondition false): counted, never a disagreement
    #[inline]
    pub fn skip() -> Out {
        Out { ok: true, nt: false, got: 0, want: 0, ops: 0, panicked: false }
    }
    /// a case outside the checked property's precondition that was nevertheless *executed* (totality pass, C16): its
    /// result only enters the profile digest; an unwind is reported
    #[inline]
    pub fn executed(got: Option<u128>) -> Out {
        match got {
            Some(g) => Out { ok: true, nt: false, got: g, want: g, ops: 1, panicked: false },
            None => Out { ok: false, nt: false, got: PANIC, want: 0, ops: 1, panicked: true },
        }
    }
    /// verdict computed by the cell itself
    #[inline]
    pub fn verdict(got: Option<u128>, ok: bool, want: u128, nt: bool) -> Out {
        match got {
            Some(g) => Out { ok, nt, got: g, want, ops: 1, panicked: false },
            None => Out { ok: false, nt, got: PANIC, want, ops: 1, panicked: true },
        }
    }
    #[inline]
    pub fn ops(mut self, n: u32) -> Out {
        self.ops = n;
        self
    }
}

pub type KeyFn = Box<dyn Fn(u64) -> u128 + Sync + Send>;
pub type CaseFn = Box<dyn Fn(u128) -> Out + Sync + Send>;

pub struct CellDef {
    pub prop: &'static str,
    pub name: String,
    pub desc: String,
    pub len: u64,
    pub key: KeyFn,
    pub f: CaseFn,
    /// the space is the complete input domain of the operation (not an alphabet / lattice)
    pub complete: bool,
}

impl CellDef {
    pub fn new(
        prop: &'static str,
        name: impl Into<String>,
        space: Space,
        f: impl Fn(u128) -> Out + Sync + Send + 'static,
    ) -> CellDef {
        CellDef { prop, name: name.into(), desc: space.desc, len: space.len, key: space.key, f: Box::new(f), complete: space.complete }
    }
}

/// A finite indexable case space: index -> key (the key identifies the case everywhere).
pub struct Space {
    pub len: u64,
    pub key: KeyFn,
    pub desc: String,
    pub complete: bool,
}

impl Space {
    /// all values 0..2^bits
    pub fn all(bits: u32) -> Space {
        Space { len: 1u64 << bits, key: Box::new(|i| i as u128), desc: format!("ALL({bits})"), complete: true }
    }
    /// all pairs (a, b) of `bits`-bit values; key = a<<32 | b
    pub fn all2(bits: u32) -> Space {
        assert!(bits <= 16);
        let m = (1u64 << bits) - 1;
        Space {
            len: 1u64 << (2 * bits),
            key: Box::new(move |i| (((i >> bits) & m) as u128) << 32 | (i & m) as u128),
            desc: format!("ALL({bits})^2"),
            complete: true,
        }
    }
    /// all triples of `bits`-bit values; key = a<<64 | b<<32 | c
    pub fn all3(bits: u32) -> Space {
        assert!(bits <= 10);
        let m = (1u64 << bits) - 1;
        Space {
            len: 1u64 << (3 * bits),
            key: Box::new(move |i| (((i >> (2 * bits)) & m) as u128) << 64 | (((i >> bits) & m) as u128) << 32 | (i & m) as u128),
            desc: format!("ALL({bits})^3"),
            complete: true,
        }
    }
    pub fn list(v: Vec<u128>, desc: impl Into<String>) -> Space {
        let len = v.len() as u64;
        Space { len, key: Box::new(move |i| v[i as usize]), desc: desc.into(), complete: false }
    }
    pub fn list32(v: Vec<u32>, desc: impl Into<String>) -> Space {
        let len = v.len() as u64;
        Space { len, key: Box::new(move |i| v[i as usize] as u128), desc: desc.into(), complete: false }
    }
    /// product a x b; key = a<<32 | b
    pub fn prod2(a: Vec<u32>, b: Vec<u32>, desc: impl Into<String>) -> Space {
        let (na, nb) = (a.len() as u64, b.len() as u64);
        Space {
            len: na * nb,
            key: Box::new(move |i| (a[(i / nb) as usize] as u128) << 32 | b[(i % nb) as usize] as u128),
            desc: desc.into(),
            complete: false,
        }
    }
    /// product a x b x c; key = a<<64 | b<<32 | c
    pub fn prod3(a: Vec<u32>, b: Vec<u32>, c: Vec<u32>, desc: impl Into<String>) -> Space {
        let (nb, nc) = (b.len() as u64, c.len() as u64);
        let na = a.len() as u64;
        Space {
            len: na * nb * nc,
            key: Box::new(move |i| {
                (a[(i / (nb * nc)) as usize] as u128) << 64 | (b[((i / nc) % nb) as usize] as u128) << 32 | c[(i % nc) as usize] as u128
            }),
            desc: desc.into(),
            complete: false,
        }
    }
    pub fn func(len: u64, desc: impl Into<String>, f: impl Fn(u64) -> u128 + Sync + Send + 'static) -> Space {
        Space { len, key: Box::new(f), desc: desc.into(), complete: false }
    }
    pub fn complete(mut self, c: bool) -> Space {
        self.complete = c;
        self
    }
}

#[inline]
pub fn k2(key: u128) -> (u32, u32) {
    ((key >> 32) as u32, key as u32)
}
#[inline]
pub fn k3(key: u128) -> (u32, u32, u32) {
    ((key >> 64) as u32, (key >> 32) as u32, key as u32)
}

// ------------------------------------------------------------------------------------------------
// panic capture
// ------------------------------------------------------------------------------------------------

thread_local! {
    static LAST_PANIC: RefCell<String> = RefCell::new(String::new());
}

pub fn install_panic_hook() {
    std::panic::set_hook(Box::new(|info| {
        let loc = info.location().map(|l| format!("{}:{}", l.file(), l.line())).unwrap_or_default();
        let msg = if let Some(s) = info.payload().downcast_ref::<&str>() {
            s.to_string()
        } else if let Some(s) = info.payload().downcast_ref::<String>() {
            s.clone()
        } else {
            String::from("panic")
        };
        LAST_PANIC.with(|p| *p.borrow_mut() = format!("{msg} at {loc}"));
    }));
}

pub fn last_panic() -> String {
    LAST_PANIC.with(|p| p.borrow().clone())
}

/// Run real code; `None` if it unwound.
#[inline]
pub fn guard<T>(f: impl FnOnce() -> T) -> Option<T> {
    std::panic::catch_unwind(std::panic::AssertUnwindSafe(f)).ok()
}

// ------------------------------------------------------------------------------------------------
// known findings
// ------------------------------------------------------------------------------------------------

#[derive(Clone, Debug)]
pub struct Finding {
    pub id: String,
    pub prop: String,
    pub cell: String, // display form of the patterns
    pub cells: Vec<String>, // cell-name patterns ('*' matches any run of characters)
    pub desc: String,
    pub whole_cell: bool,
    pub skip: bool, // do not execute these cases (they hang)
    pub ranges: Vec<(u128, u128)>, // inclusive, sorted
}

impl Finding {
    fn matches_cell(&self, prop: &str, cell: &str) -> bool {
        if self.prop != prop {
            return false;
        }
        self.cells.iter().any(|p| glob(p, cell))
    }
    fn contains(&self, key: u128) -> bool {
        if self.whole_cell {
            return true;
        }
        let r = &self.ranges;
        let i = r.partition_point(|&(_, hi)| hi < key);
        i < r.len() && r[i].0 <= key
    }
}

/// `*` matches any run of characters (cell patterns like `PxE1<*>/from_i32*`)
pub fn glob(pat: &str, s: &str) -> bool {
    if !pat.contains('*') {
        return pat == s;
    }
    let parts: Vec<&str> = pat.split('*').collect();
    let mut pos = 0usize;
    for (i, part) in parts.iter().enumerate() {
        if i == 0 {
            if !s.starts_with(part) {
                return false;
            }
            pos = part.len();
        } else if i == parts.len() - 1 {
            return s.len() >= pos + part.len() && s[pos..].ends_with(part);
        } else {
            match s[pos..].find(part) {
                Some(j) => pos += j + part.len(),
                None => return false,
            }
        }
    }
    true
}

fn parse_u128(s: &str) -> u128 {
    let s = s.trim();
    if let Some(h) = s.strip_prefix("0x") {
        u128::from_str_radix(&h.replace('_', ""), 16).expect("hex key")
    } else {
        s.parse().expect("dec key")
    }
}

/// known_findings/index.json: {"findings":[{id, property, cell, description, status, kind:"keys"|"cell",
///   keys:[ "0x..", ["0x..","0x.."] ... ] | keys_file:"name.rle", skip:bool }]}
/// entries with status "fixed" are documentation only and suppress nothing.
pub fn load_findings(dir: &str) -> Vec<Finding> {
    let path = format!("{dir}/index.json");
    let Ok(txt) = std::fs::read_to_string(&path) else { return vec![] };
    let v: Value = serde_json::from_str(&txt).expect("known_findings/index.json is not valid JSON");
    let mut out = vec![];
    for f in v["findings"].as_array().cloned().unwrap_or_default() {
        if f["status"].as_str() != Some("open") {
            continue;
        }
        let mut ranges = vec![];
        let mut push = |k: &Value| match k {
            Value::String(s) => {
                let x = parse_u128(s);
                ranges.push((x, x));
            }
            Value::Array(a) => ranges.push((parse_u128(a[0].as_str().unwrap()), parse_u128(a[1].as_str().unwrap()))),
            _ => panic!("bad key in finding"),
        };
        if let Some(a) = f["keys"].as_array() {
            for k in a {
                push(k);
            }
        }
        if let Some(file) = f["keys_file"].as_str() {
            let t = std::fs::read_to_string(format!("{dir}/{file}")).expect("keys_file");
            for line in t.lines() {
                let line = line.trim();
                if line.is_empty() || line.starts_with('#') {
                    continue;
                }
                let mut it = line.split_whitespace();
                let a = parse_u128(it.next().unwrap());
                let b = it.next().map(parse_u128).unwrap_or(a);
                ranges.push((a, b));
            }
        }
        ranges.sort();
        out.push(Finding {
            id: f["id"].as_str().unwrap_or("?").to_string(),
            prop: f["property"].as_str().unwrap_or("?").to_string(),
            cell: match f["cells"].as_array() {
                Some(a) => a.iter().filter_map(|x| x.as_str()).collect::<Vec<_>>().join(" | "),
                None => f["cell"].as_str().unwrap_or("?").to_string(),
            },
            cells: match f["cells"].as_array() {
                Some(a) => a.iter().filter_map(|x| x.as_str().map(|s| s.to_string())).collect(),
                None => vec![f["cell"].as_str().unwrap_or("?").to_string()],
            },
            desc: f["description"].as_str().unwrap_or("").to_string(),
            whole_cell: f["kind"].as_str() == Some("cell"),
            skip: f["skip"].as_bool().unwrap_or(false),
            ranges,
        });
    }
    out
}

// ------------------------------------------------------------------------------------------------
// configuration
// ------------------------------------------------------------------------------------------------

#[derive(Clone, Debug, PartialEq, Eq)]
pub enum Mode {
    /// value check of one property
    Check,
    /// totality / profile digest run (C16): only panics and hangs are violations; value mismatches are ignored
    Total,
}

pub struct Cfg {
    pub prop: String,
    pub tier: String,
    pub seed: u64,
    pub verif_dir: String,
    pub threads: usize,
    pub mode: Mode,
    pub cell_filter: Option<String>,
    pub replay: Option<String>,
    pub dump_fails: Option<String>,
    pub digest_out: Option<String>,
    pub digest_cmp: Option<String>,
    pub eval: Option<(String, u128)>,
    pub deadline_s: u64,
    pub profile: String,
    pub no_evidence: bool,
    pub extra: BTreeMap<String, String>,
    /// property id used for known findings, verdict lines, replay and evidence (differs from `prop` when C16 reuses the cells of another property)
    pub report: String,
}

impl Cfg {
    pub fn from_args() -> Cfg {
        let mut c = Cfg {
            prop: String::new(),
            tier: std::env::var("VERIF_TIER").unwrap_or_else(|_| "quick".into()),
            seed: std::env::var("VERIF_SEED").ok().and_then(|s| s.parse().ok()).unwrap_or(0),
            verif_dir: std::env::var("VERIF_DIR").unwrap_or_else(|_| "/verif".into()),
            threads: std::env::var("VERIF_THREADS")
                .ok()
                .and_then(|s| s.parse().ok())
                .unwrap_or_else(|| std::thread::available_parallelism().map(|n| n.get()).unwrap_or(8)),
            mode: Mode::Check,
            cell_filter: None,
            replay: None,
            dump_fails: None,
            digest_out: None,
            digest_cmp: None,
            eval: None,
            deadline_s: 6 * 3600,
            profile: if cfg!(debug_assertions) { "chk".into() } else { "release".into() },
            no_evidence: false,
            extra: BTreeMap::new(),
            report: String::new(),
        };
        let a: Vec<String> = std::env::args().skip(1).collect();
        let mut i = 0;
        while i < a.len() {
            let nxt = |i: usize| a.get(i + 1).cloned().unwrap_or_else(|| panic!("missing value for {}", a[i]));
            match a[i].as_str() {
                "--prop" => { c.prop = nxt(i); i += 1 }
                "--tier" => { c.tier = nxt(i); i += 1 }
                "--seed" => { c.seed = nxt(i).parse().unwrap(); i += 1 }
                "--threads" => { c.threads = nxt(i).parse().unwrap(); i += 1 }
                "--mode" => { c.mode = if nxt(i) == "total" { TOTAL_MODE.store(true, Ordering::Relaxed); Mode::Total } else { Mode::Check }; i += 1 }
                "--cell" => { c.cell_filter = Some(nxt(i)); i += 1 }
                "--replay" => { c.replay = Some(nxt(i)); i += 1 }
                "--dump-fails" => { c.dump_fails = Some(nxt(i)); i += 1 }
                "--digest-out" => { c.digest_out = Some(nxt(i)); i += 1 }
                "--digest-cmp" => { c.digest_cmp = Some(nxt(i)); i += 1 }
                "--deadline" => { c.deadline_s = nxt(i).parse().unwrap(); i += 1 }
                "--no-evidence" => c.no_evidence = true,
                "--eval" => { c.eval = Some((nxt(i), parse_u128(&a[i + 2]))); i += 2 }
                s if s.starts_with("--x-") => { c.extra.insert(s[4..].to_string(), nxt(i)); i += 1 }
                s => panic!("unknown argument {s}"),
            }
            i += 1;
        }
        c.report = c.extra.get("report-as").cloned().unwrap_or_else(|| c.prop.clone());
        c
    }
    pub fn thorough(&self) -> bool {
        self.tier == "thorough"
    }
}

// ------------------------------------------------------------------------------------------------
// per-cell results
// ------------------------------------------------------------------------------------------------

#[derive(Clone, Debug)]
pub struct Fail {
    pub key: u128,
    pub panicked: bool,
    pub got: u128,
    pub want: u128,
    pub note: String,
}

#[derive(Default, Clone, Debug)]
pub struct CellStats {
    pub name: String,
    pub desc: String,
    pub complete: bool,
    pub cases: u64,
    pub ops: u64,
    pub nontrivial: u64,
    pub fails: u64,
    pub known: u64,
    pub panics: u64,
    pub skipped: u64,
    pub distinct_outcomes_lb: u64,
    pub digest: u64,
    pub violations: Vec<Fail>,
    pub known_by: BTreeMap<String, u64>,
    pub hang: Option<u128>,
    pub wall_s: f64,
    pub samples: Vec<Value>,
    pub chunks: Vec<(u64, u64)>,
}

struct Slot {
    seq: AtomicU64,
    key_lo: AtomicU64,
    key_hi: AtomicU64,
    active: AtomicBool,
    tid: AtomicU64,
    _pad: [u64; 11],
}

/// kernel thread id of the calling thread (from the /proc/thread-self link), 0 if unavailable
fn own_tid() -> u64 {
    std::fs::read_link("/proc/thread-self").ok().and_then(|p| p.file_name().and_then(|f| f.to_str().and_then(|s| s.parse().ok()))).unwrap_or(0)
}

/// CPU time (user + system, in clock ticks of 10 ms) consumed so far by a thread of this process
fn thread_cpu_ticks(tid: u64) -> Option<u64> {
    let s = std::fs::read_to_string(format!("/proc/self/task/{tid}/stat")).ok()?;
    let rest = &s[s.rfind(')')? + 2..]; // fields after "(comm) "
    let f: Vec<&str> = rest.split_whitespace().collect();
    // rest starts at field 3 (state); utime = field 14, stime = field 15
    Some(f.get(11)?.parse::<u64>().ok()? + f.get(12)?.parse::<u64>().ok()?)
}

#[inline]
fn mix(mut h: u64, x: u64) -> u64 {
    h ^= x.wrapping_mul(0x9E37_79B9_7F4A_7C15);
    h = h.rotate_left(27).wrapping_mul(0x94D0_49BB_1331_11EB);
    h ^ (h >> 31)
}

pub fn hex(x: u128) -> String {
    format!("{x:#x}")
}

/// encode a signed integer result
#[inline]
pub fn enc_i(v: i128) -> u128 {
    (v as u128) & ((1u128 << 120) - 1)
}

/// Explore one cell completely. Returns its statistics. On a hang, writes what it knows and exits the process.
pub fn run_cell(cfg: &Cfg, cell: &CellDef, findings: &[Finding], on_hang: &(dyn Fn(&CellStats) + Sync)) -> CellStats {
    let t0 = Instant::now();
    let fnd: Vec<&Finding> = findings.iter().filter(|f| f.matches_cell(&cfg.report, &cell.name) || (cfg.report == cfg.prop && f.matches_cell(cell.prop, &cell.name))).collect();
    let skipf: Vec<&Finding> = fnd.iter().copied().filter(|f| f.skip).collect();
    let total_mode = cfg.mode == Mode::Total;
    let n = cell.len;
    let next = AtomicU64::new(0);
    let nthreads = cfg.threads.max(1);
    let slots: Vec<Slot> = (0..nthreads)
        .map(|_| Slot { seq: AtomicU64::new(0), key_lo: AtomicU64::new(0), key_hi: AtomicU64::new(0), active: AtomicBool::new(false), tid: AtomicU64::new(0), _pad: [0; 11] })
        .collect();
    let done = AtomicBool::new(false);
    let merged: Mutex<CellStats> = Mutex::new(CellStats { name: cell.name.clone(), desc: cell.desc.clone(), complete: cell.complete, ..Default::default() });
    let bitmap: Vec<AtomicU64> = (0..(1usize << 14)).map(|_| AtomicU64::new(0)).collect(); // 2^20 bits
    let dump: Mutex<Vec<u128>> = Mutex::new(vec![]);
    let want_dump = cfg.dump_fails.is_some();
    let want_chunks = cfg.digest_out.is_some();
    let max_viol = 16usize;

    std::thread::scope(|s| {
        // watchdog
        s.spawn(|| {
            // A case counts as non-terminating when its thread has burnt 10 s of *CPU time* on it without
            // returning (the code under test never blocks, so a hang is a spin); CPU time instead of wall time
            // keeps the verdict independent of machine load. Fallback: 600 s of wall time without progress.
            let mut last: Vec<(u64, u32, Option<u64>)> = vec![(u64::MAX, 0, None); nthreads];
            let mut tick = 0u32;
            while !done.load(Ordering::Relaxed) {
                std::thread::sleep(Duration::from_millis(5));
                tick += 1;
                if tick % 100 != 0 {
                    continue;
                }
                for (t, sl) in slots.iter().enumerate() {
                    if !sl.active.load(Ordering::Relaxed) {
                        last[t] = (u64::MAX, 0, None);
                        continue;
                    }
                    let q = sl.seq.load(Ordering::Relaxed);
                    let cpu = thread_cpu_ticks(sl.tid.load(Ordering::Relaxed));
                    if q == last[t].0 {
                        last[t].1 += 1;
                        let spun = match (last[t].2, cpu) {
                            (Some(c0), Some(c1)) => c1.saturating_sub(c0) >= 1000, // 10 s of CPU time on one case
                            _ => last[t].1 >= 20,                                // no /proc: 10 s of wall time
                        };
                        if spun || last[t].1 >= 1200 {
                            let key = (sl.key_hi.load(Ordering::Relaxed) as u128) << 64 | sl.key_lo.load(Ordering::Relaxed) as u128;
                            let mut st = merged.lock().unwrap().clone();
                            st.hang = Some(key);
                            st.wall_s = t0.elapsed().as_secs_f64();
                            on_hang(&st);
                            std::process::exit(1);
                        }
                    } else {
                        last[t] = (q, 0, cpu);
                    }
                }
            }
        });
        let mut handles = vec![];
        for t in 0..nthreads {
            let slots = &slots;
            let next = &next;
            let merged = &merged;
            let bitmap = &bitmap;
            let fnd = &fnd;
            let skipf = &skipf;
            let dump = &dump;
            handles.push(s.spawn(move || {
                let sl = &slots[t];
                sl.tid.store(own_tid(), Ordering::Relaxed);
                let mut st = CellStats::default();
                let mut seq = 0u64;
                loop {
                    let start = next.fetch_add(CHUNK, Ordering::Relaxed);
                    if start >= n {
                        break;
                    }
                    let end = (start + CHUNK).min(n);
                    let mut dg = 0u64;
                    sl.active.store(true, Ordering::Relaxed);
                    for i in start..end {
                        let key = (cell.key)(i);
                        if !skipf.is_empty() {
                            if let Some(f) = skipf.iter().find(|f| f.contains(key)) {
                                st.skipped += 1;
                                st.known += 1;
                                *st.known_by.entry(f.id.clone()).or_default() += 1;
                                continue;
                            }
                        }
                        seq += 1;
                        sl.key_lo.store(key as u64, Ordering::Relaxed);
                        sl.key_hi.store((key >> 64) as u64, Ordering::Relaxed);
                        sl.seq.store(seq, Ordering::Relaxed);
                        let o = (cell.f)(key);
                        st.cases += 1;
                        st.ops += o.ops as u64;
                        st.nontrivial += o.nt as u64;
                        let gh = mix(o.got as u64, ((o.got >> 64) as u64) ^ ((o.panicked as u64) << 63).rotate_left(7));
                        dg = mix(mix(dg, key as u64 ^ ((key >> 64) as u64).rotate_left(32)), gh);
                        let b = (gh >> 44) as usize; // 20 bits
                        let w = &bitmap[b >> 6];
                        let m = 1u64 << (b & 63);
                        if w.load(Ordering::Relaxed) & m == 0 {
                            w.fetch_or(m, Ordering::Relaxed);
                        }
                        let panicked = o.panicked;
                        if panicked {
                            st.panics += 1;
                        }
                        let bad = if total_mode { panicked } else { !o.ok };
                        if bad {
                            st.fails += 1;
                            if want_dump {
                                dump.lock().unwrap().push(key);
                            }
                            if let Some(f) = fnd.iter().find(|f| f.contains(key)) {
                                st.known += 1;
                                *st.known_by.entry(f.id.clone()).or_default() += 1;
                            } else if st.violations.len() < max_viol {
                                let note = if panicked { last_panic() } else { String::new() };
                                st.violations.push(Fail { key, panicked, got: o.got, want: o.want, note });
                            }
                        }
                    }
                    sl.active.store(false, Ordering::Relaxed);
                    st.digest = st.digest.wrapping_add(mix(start, dg));
                    if want_chunks {
                        st.chunks.push((start, dg));
                    }
                }
                let mut m = merged.lock().unwrap();
                m.cases += st.cases;
                m.ops += st.ops;
                m.nontrivial += st.nontrivial;
                m.fails += st.fails;
                m.known += st.known;
                m.panics += st.panics;
                m.skipped += st.skipped;
                m.digest = m.digest.wrapping_add(st.digest);
                m.chunks.extend(st.chunks);
                for (k, v) in st.known_by {
                    *m.known_by.entry(k).or_default() += v;
                }
                for v in st.violations {
                    if m.violations.len() < max_viol {
                        m.violations.push(v);
                    }
                }
            }));
        }
        for h in handles {
            if let Err(e) = h.join() {
                eprintln!("worker thread died outside a guarded call: {e:?}");
                std::process::exit(2);
            }
        }
        done.store(true, Ordering::Relaxed);
    });

    let mut st = merged.into_inner().unwrap();
    st.violations.sort_by_key(|f| f.key);
    st.chunks.sort();
    st.distinct_outcomes_lb = bitmap.iter().map(|w| w.load(Ordering::Relaxed).count_ones() as u64).sum();
    // seed-rotated samples: re-evaluate a few cases and write them out
    if n > 0 {
        for j in 0..3u64 {
            let idx = (cfg.seed.wrapping_mul(0x9E37_79B9_7F4A_7C15).wrapping_add(j.wrapping_mul(0x632B_E59B_D9B4_E019)) >> 1) % n;
            let key = (cell.key)(idx);
            if skipf.iter().any(|f| f.contains(key)) {
                continue;
            }
            let o = (cell.f)(key);
            st.samples.push(json!({"cell": cell.name, "index": idx, "key": hex(key), "got": if o.panicked { "PANIC".to_string() } else { hex(o.got) }, "want": hex(o.want), "agrees": o.ok}));
        }
    }
    st.wall_s = t0.elapsed().as_secs_f64();
    if let Some(p) = &cfg.dump_fails {
        let mut d = dump.into_inner().unwrap();
        d.sort();
        let mut txt = String::new();
        let mut i = 0;
        while i < d.len() {
            let mut j = i;
            while j + 1 < d.len() && d[j + 1] == d[j] + 1 {
                j += 1;
            }
            if j > i {
                txt.push_str(&format!("{:#x} {:#x}\n", d[i], d[j]));
            } else {
                txt.push_str(&format!("{:#x}\n", d[i]));
            }
            i = j + 1;
        }
        let fname = format!("{}/{}.rle", p, cell.name.replace(['/', '<', '>', ' ', ':'], "_"));
        std::fs::create_dir_all(p).ok();
        if !d.is_empty() {
            std::fs::write(fname, txt).unwrap();
        }
    }
    st
}

fn sanitize(s: &str) -> String {
    s.replace(['/', '<', '>', ' ', ':', ','], "_")
}

fn cell_json(c: &CellStats) -> Value {
    json!({
        "cell": c.name, "space": c.desc, "complete_domain": c.complete, "cases": c.cases, "real_code_calls": c.ops,
        "nontrivial": c.nontrivial, "distinct_outcomes_lower_bound": c.distinct_outcomes_lb,
        "disagreements": c.fails, "matched_known_findings": c.known, "panics": c.panics, "skipped_known_hangs": c.skipped,
        "digest": format!("{:016x}", c.digest), "wall_s": (c.wall_s * 1000.0).round() / 1000.0,
    })
}

pub struct Extra {
    /// additional states / transitions / validated traces contributed by explorers outside run_cell (stateright)
    pub states: u64,
    pub transitions: u64,
    pub validated: u64,
    pub nontrivial: u64,
    pub samples: Vec<Value>,
    pub notes: Vec<String>,
    pub violations: Vec<(String, Value)>,
    pub known: Vec<(String, String, u64)>, // (finding id, description, count)
    pub tables: Vec<Value>,
    /// notes computed after the exploration (e.g. counters gathered by the cells)
    pub late_notes: Vec<Box<dyn Fn() -> String + Send + Sync>>,
}

impl Default for Extra {
    fn default() -> Self {
        Extra { states: 0, transitions: 0, validated: 0, nontrivial: 0, samples: vec![], notes: vec![], violations: vec![], known: vec![], tables: vec![], late_notes: vec![] }
    }
}

pub struct Report {
    pub rule: String,
    pub assumptions: Vec<String>,
    pub bound: String,
}

/// Explore all cells, print verdict lines, write evidence + replay files. Returns the process exit code.
pub fn run_cells(cfg: &Cfg, cells: Vec<CellDef>, extra: Extra, rep: Report) -> i32 {
    install_panic_hook();
    let t0 = Instant::now();
    let findings = load_findings(&format!("{}/known_findings", cfg.verif_dir));
    let cells: Vec<CellDef> = cells
        .into_iter()
        .filter(|c| cfg.cell_filter.as_ref().map_or(true, |f| c.name.contains(f.as_str())))
        .collect();

    // --replay <file>: re-execute one recorded case, twice, without the explorer
    if let Some(path) = &cfg.replay {
        let v: Value = serde_json::from_str(&std::fs::read_to_string(path).expect("replay file")).expect("replay json");
        let cname = v["cell"].as_str().unwrap();
        let key = parse_u128(v["key"].as_str().unwrap());
        let Some(cell) = cells.iter().find(|c| c.name == cname) else {
            eprintln!("replay: cell {cname} is not provided by this engine/tier");
            return 2;
        };
        let o1 = (cell.f)(key);
        let o2 = (cell.f)(key);
        println!("replay cell={} key={} got={} want={} agrees={} note={}", cname, hex(key), if o1.panicked { "PANIC".to_string() } else { hex(o1.got) }, hex(o1.want), o1.ok, if o1.panicked { last_panic() } else { String::new() });
        if o1.got != o2.got || o1.want != o2.want {
            println!("replay: NONDETERMINISTIC (second run got={} want={})", hex(o2.got), hex(o2.want));
            return 2;
        }
        let bad = if cfg.mode == Mode::Total { o1.panicked } else { !o1.ok };
        if bad {
            println!("VIOLATION property={} replay={}", cfg.report, path);
            return 1;
        }
        return 0;
    }
    if let Some(spec) = cfg.extra.get("eval-chunk") {
        // --x-eval-chunk "<cell>@<start hex>": print key, got, panicked for the CHUNK cases from that index
        let (cname, st) = spec.rsplit_once('@').expect("cell@start");
        let start = u64::from_str_radix(st, 16).unwrap();
        let Some(cell) = cells.iter().find(|c| c.name == cname) else { return 2 };
        for i in start..(start + CHUNK).min(cell.len) {
            let key = (cell.key)(i);
            let o = (cell.f)(key);
            println!("{:x} {:x} {}", key, o.got, o.panicked as u8);
        }
        return 0;
    }
    if let Some((cname, key)) = &cfg.eval {
        let Some(cell) = cells.iter().find(|c| &c.name == cname) else { return 2 };
        let o = (cell.f)(*key);
        println!("{} {}", hex(o.got), hex(o.want));
        return 0;
    }

    let deadline = Duration::from_secs(cfg.deadline_s);
    let mut stats: Vec<CellStats> = vec![];
    let replay_dir = format!("{}/replay/{}", cfg.verif_dir, cfg.report);
    let mut capped = false;
    for cell in &cells {
        if t0.elapsed() > deadline {
            capped = true;
            eprintln!("wall-clock cap reached before cell {}", cell.name);
            break;
        }
        let prop = cfg.report.clone();
        let rd = replay_dir.clone();
        let cname = cell.name.clone();
        let on_hang = move |st: &CellStats| {
            let key = st.hang.unwrap();
            std::fs::create_dir_all(&rd).ok();
            let path = format!("{}/{}.hang.json", rd, sanitize(&cname));
            let _ = std::fs::write(&path, serde_json::to_string_pretty(&json!({"property": prop, "cell": cname, "key": hex(key), "observed": "no return after 10 s of CPU time on this one case (non-termination)", "note": "replaying this case hangs; run it under `timeout`"})).unwrap());
            println!("cell {cname}: case key={} did not return within 10 s of CPU time", hex(key));
            println!("VIOLATION property={} replay={}", prop, path);
        };
        let st = run_cell(cfg, cell, &findings, &on_hang);
        eprintln!(
            "  [{}] {:<40} {:<28} cases={:<12} nontrivial={:<11} disagree={:<9} known={:<9} panics={:<6} {:.1}s",
            cfg.prop, st.name, st.desc.chars().take(28).collect::<String>(), st.cases, st.nontrivial, st.fails, st.known, st.panics, st.wall_s
        );
        stats.push(st);
    }

    // verdict
    let mut exit = 0;
    let mut nviol = 0u64;
    let mut known_tot: BTreeMap<String, u64> = BTreeMap::new();
    for st in &stats {
        for (k, v) in &st.known_by {
            *known_tot.entry(k.clone()).or_default() += v;
        }
    }
    for (id, _d, c) in &extra.known {
        *known_tot.entry(id.clone()).or_default() += c;
    }
    for (id, cnt) in &known_tot {
        let f = findings.iter().find(|f| &f.id == id);
        let (cell, desc) = f.map(|f| (f.cell.clone(), f.desc.clone())).unwrap_or_else(|| {
            let e = extra.known.iter().find(|e| &e.0 == id).unwrap();
            (String::from("-"), e.1.clone())
        });
        println!("KNOWN-FINDING: property={} {} [{}]: {} ({} cases this run)", cfg.report, cell, id, desc, cnt);
    }
    let mut first_replay: Option<String> = None;
    for st in &stats {
        let unknown = st.fails - st.known;
        if unknown > 0 {
            nviol += unknown;
            exit = 1;
            std::fs::create_dir_all(&replay_dir).ok();
            for (j, v) in st.violations.iter().enumerate().take(4) {
                let path = format!("{}/{}.{}.json", replay_dir, sanitize(&st.name), j);
                let _ = std::fs::write(
                    &path,
                    serde_json::to_string_pretty(&json!({
                        "property": cfg.report, "cell": st.name, "cells_of": cfg.prop, "space": st.desc, "tier": cfg.tier, "profile": cfg.profile,
                        "key": hex(v.key), "observed": if v.panicked { "PANIC".to_string() } else { hex(v.got) }, "expected": hex(v.want), "note": v.note,
                        "cell_disagreements_total": st.fails, "cell_disagreements_not_in_known_findings": unknown,
                    }))
                    .unwrap(),
                );
                if j == 0 {
                    println!("cell {}: {} case(s) violate the property outside the known findings; first: key={} got={} want={} {}", st.name, unknown, hex(v.key), if v.panicked { "PANIC".to_string() } else { hex(v.got) }, hex(v.want), v.note);
                    println!("VIOLATION property={} replay={}", cfg.report, path);
                    if first_replay.is_none() {
                        first_replay = Some(path.clone());
                    }
                }
            }
        }
    }
    for (path_hint, v) in &extra.violations {
        nviol += 1;
        exit = 1;
        std::fs::create_dir_all(&replay_dir).ok();
        let path = format!("{}/{}.json", replay_dir, sanitize(path_hint));
        let _ = std::fs::write(&path, serde_json::to_string_pretty(v).unwrap());
        println!("VIOLATION property={} replay={}", cfg.report, path);
    }

    // digests (C16): per cell, and per chunk of CHUNK consecutive cases so that a mismatch can be localised
    if let Some(p) = &cfg.digest_out {
        let v: BTreeMap<&String, Value> = stats
            .iter()
            .map(|s| {
                (
                    &s.name,
                    json!({"digest": format!("{:016x}", s.digest), "cases": s.cases, "panics": s.panics,
                           "chunks": s.chunks.iter().map(|(st, d)| format!("{:x}:{:016x}", st, d)).collect::<Vec<_>>()}),
                )
            })
            .collect();
        std::fs::write(p, serde_json::to_string(&v).unwrap()).unwrap();
    }

    // evidence
    let cases: u64 = stats.iter().map(|s| s.cases).sum::<u64>() + extra.states;
    let ops: u64 = stats.iter().map(|s| s.ops).sum::<u64>() + extra.transitions;
    let nt: u64 = stats.iter().map(|s| s.nontrivial).sum::<u64>() + extra.nontrivial;
    let validated: u64 = stats.iter().map(|s| s.cases).sum::<u64>() + extra.validated;
    let mut samples: Vec<Value> = extra.samples.clone();
    for s in &stats {
        if samples.len() < 40 {
            samples.extend(s.samples.iter().take(2).cloned());
        }
    }
    let all_complete = !stats.is_empty() && stats.iter().all(|s| s.complete);
    let masked: Vec<Value> = findings
        .iter()
        .filter(|f| f.whole_cell && known_tot.contains_key(&f.id))
        .map(|f| json!({"cell": f.cell, "finding": f.id, "reason": f.desc}))
        .collect();
    let ev = json!({
        "property_id": cfg.report,
        "tier": if cfg.thorough() { "thorough" } else { "quick" },
        "seed": cfg.seed,
        "level": "model_checking",
        "coverage": {
            "states": cases,
            "transitions": ops,
            "traces_validated_against_impl": validated,
            "evaluations": cases,
            "distinct_nontrivial": nt,
            "rule": rep.rule,
            "exhaustive": !capped,
            "exhaustive_over": if all_complete { "the complete input domain of every listed cell".to_string() } else { "the finite spaces listed per cell (complete_domain marks cells whose space is the whole input domain)".to_string() },
            "bound_completed": if capped { format!("wall-clock cap hit: {} of {} cells completed", stats.len(), cells.len()) } else { rep.bound.clone() },
            "cells": stats.iter().map(cell_json).collect::<Vec<_>>(),
            "tables": extra.tables,
            "samples": samples,
            "masked_cells": masked,
            "known_findings_matched": known_tot.iter().map(|(k, v)| json!({"finding": k, "cases": v})).collect::<Vec<_>>(),
            "build_profile": cfg.profile,
            "notes": extra.notes.iter().cloned().chain(extra.late_notes.iter().map(|f| f())).collect::<Vec<String>>(),
        },
        "assumptions": rep.assumptions,
        "wall_s": (t0.elapsed().as_secs_f64() * 100.0).round() / 100.0,
        "violations": nviol,
    });
    if !cfg.no_evidence {
        let dir = format!("{}/evidence", cfg.verif_dir);
        std::fs::create_dir_all(&dir).ok();
        std::fs::write(format!("{}/{}.json", dir, cfg.report), serde_json::to_string_pretty(&ev).unwrap()).unwrap();
    } else if let Some(p) = cfg.extra.get("evidence-part") {
        std::fs::write(p, serde_json::to_string_pretty(&ev).unwrap()).unwrap();
    }
    eprintln!(
        "[{}] tier={} profile={} cells={} cases={} real-code calls={} nontrivial={} violations={} known={} wall={:.1}s",
        cfg.prop, cfg.tier, cfg.profile, stats.len(), cases, ops, nt, nviol, known_tot.values().sum::<u64>(), t0.elapsed().as_secs_f64()
    );
    if capped && exit == 0 {
        return 2;
    }
    exit
}

// ------------------------------------------------------------------------------------------------
// monotone interval cache
// ------------------------------------------------------------------------------------------------

/// For a reference function that is *monotone* in the posit order of its 32-bit argument (every correctly rounded
/// conversion and every integer-valued rounding function is), the inputs sharing one result form an interval of
/// bit patterns (patterns of one sign ascend with the value). A complete ascending sweep therefore needs the
/// reference only at interval ends: on a miss the reference is evaluated at x and the end of the interval is found
/// by galloping + bisection on the reference itself; all members in between are compared with the cached result.
/// Soundness rests on the monotonicity of the *reference* only (a mathematical property of rounding), never on
/// the code under test. Returns (reference value, whether the interval has more than one member).
/// set when the engine runs with `--mode total` (the C16 pass): cells then also execute the cases their own property
/// does not constrain (e.g. quire sums that leave the range), so that an unwind or a profile difference there is seen
pub static TOTAL_MODE: AtomicBool = AtomicBool::new(false);
pub fn total_mode() -> bool {
    TOTAL_MODE.load(Ordering::Relaxed)
}

pub mod mono {
    use std::cell::RefCell;
    #[derive(Clone, Copy)]
    struct Ent {
        id: u64,
        lo: u32,
        hi: u32,
        val: u128,
        singles: u32,
        skip: u32,
    }
    thread_local! {
        static CACHE: RefCell<Ent> = const { RefCell::new(Ent { id: 0, lo: 1, hi: 0, val: 0, singles: 0, skip: 0 }) };
    }

    pub fn lookup(id: u64, x: u32, oracle: &dyn Fn(u32) -> u128) -> (u128, bool) {
        if x == 0 || x == 0x8000_0000 {
            return (oracle(x), true);
        }
        CACHE.with(|c| {
            let mut e = c.borrow_mut();
            if e.id == id && e.lo <= x && x <= e.hi {
                return (e.val, e.hi > e.lo);
            }
            if e.id != id {
                *e = Ent { id, lo: 1, hi: 0, val: 0, singles: 0, skip: 0 };
            }
            let v = oracle(x);
            if e.skip > 0 {
                // a stretch where every input has its own result (e.g. integers above 2^27): no search
                e.skip -= 1;
                return (v, false);
            }
            // end of the sign's pattern range
            let end: u32 = if x < 0x8000_0000 { 0x7fff_ffff } else { 0xffff_ffff };
            // gallop
            let mut good = x; // oracle(good) == v
            let mut step: u32 = 1;
            let mut bad: Option<u32> = None;
            loop {
                let probe = match good.checked_add(step) {
                    Some(p) if p <= end => p,
                    _ => {
                        if good == end {
                            break;
                        }
                        end
                    }
                };
                if oracle(probe) == v {
                    good = probe;
                    if probe == end {
                        break;
                    }
                    step = step.saturating_mul(2);
                } else {
                    bad = Some(probe);
                    break;
                }
            }
            if let Some(mut b) = bad {
                // bisect (good, b)
                while b - good > 1 {
                    let mid = good + (b - good) / 2;
                    if oracle(mid) == v {
                        good = mid;
                    } else {
                        b = mid;
                    }
                }
            }
            e.lo = x;
            e.hi = good;
            e.val = v;
            if good == x {
                e.singles += 1;
                if e.singles >= 4 {
                    e.skip = 256;
                    e.singles = 0;
                }
            } else {
                e.singles = 0;
            }
            (v, good > x)
        })
    }
}

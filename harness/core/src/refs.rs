//! Reference results built on the exact oracle (all patterns right-aligned in n bits).
use std::cmp::Ordering;
use vp_oracle as o;
pub use vp_oracle::{nar, Ex};

#[inline]
pub fn mask(n: u32) -> u32 {
    if n == 32 {
        u32::MAX
    } else {
        (1u32 << n) - 1
    }
}

/// (want, nontrivial) of a op b, op: 0 add 1 sub 2 mul 3 div
pub fn bin(n: u32, es: u32, op: u8, a: u32, b: u32) -> (u32, bool) {
    let (Some(x), Some(y)) = (o::decode(n, es, a), o::decode(n, es, b)) else { return (nar(n), true) };
    let v = match op {
        0 => o::add(x, y),
        1 => o::sub(x, y),
        2 => o::mul(x, y),
        _ => {
            if y.is_zero() {
                return (nar(n), true);
            }
            o::div(x, y)
        }
    };
    let (r, inex) = o::round_ex(n, es, v);
    (r, inex || (v.is_zero() && !x.is_zero() && !y.is_zero()))
}

/// kind: 0 a*b+c, 1 a*b-c, 2 c-a*b
pub fn fma(n: u32, es: u32, kind: u8, a: u32, b: u32, c: u32) -> (u32, bool) {
    let (Some(x), Some(y), Some(z)) = (o::decode(n, es, a), o::decode(n, es, b), o::decode(n, es, c)) else {
        return (nar(n), true);
    };
    let p = o::mul(x, y);
    let v = match kind {
        0 => o::add(p, z),
        1 => o::sub(p, z),
        _ => o::sub(z, p),
    };
    let (r, inex) = o::round_ex(n, es, v);
    (r, inex || (v.is_zero() && !p.is_zero()))
}

pub fn sqrt(n: u32, es: u32, a: u32) -> (u32, bool) {
    match o::decode(n, es, a) {
        None => (nar(n), true),
        Some(x) if x.neg => (nar(n), true),
        Some(x) => o::round_ex(n, es, o::sqrt(x)),
    }
}

/// order of the represented values, NaR below everything and equal to itself
pub fn ord(n: u32, es: u32, a: u32, b: u32) -> Ordering {
    match (o::decode(n, es, a), o::decode(n, es, b)) {
        (None, None) => Ordering::Equal,
        (None, _) => Ordering::Less,
        (_, None) => Ordering::Greater,
        (Some(x), Some(y)) => o::cmp(x, y),
    }
}

/// convert between posit formats: round(dn, des, decode(sn, ses, a))
pub fn conv(sn: u32, ses: u32, dn: u32, des: u32, a: u32) -> (u32, bool) {
    match o::decode(sn, ses, a) {
        None => (nar(dn), true),
        Some(v) => o::round_ex(dn, des, v),
    }
}

pub fn from_f64(n: u32, es: u32, x: f64) -> (u32, bool) {
    match o::from_f64(x) {
        None => (nar(n), true),
        Some(v) => o::round_ex(n, es, v),
    }
}

pub fn from_int(n: u32, es: u32, v: i128) -> (u32, bool) {
    o::round_ex(n, es, o::from_i128(v))
}

/// nearest-even integer of a posit clamped to [lo, hi]; None for NaR
pub fn to_int(n: u32, es: u32, a: u32, lo: i128, hi: i128) -> Option<i128> {
    o::decode(n, es, a).map(|x| o::rne_int(x).max(lo).min(hi))
}

/// which: 0 round 1 floor 2 ceil 3 trunc 4 fract
pub fn rounding(n: u32, es: u32, which: u8, a: u32) -> (u32, bool) {
    let Some(x) = o::decode(n, es, a) else { return (nar(n), true) };
    if x.is_zero() {
        return (0, false);
    }
    // huge values are integers already (and would not fit i128 arithmetic)
    if x.e >= 0 {
        return if which == 4 { (0, false) } else { (a & mask(n), false) };
    }
    let fl = o::floor_int(x);
    let isint = o::is_int(x);
    let ce = if isint { fl } else { fl + 1 };
    let tr = if x.neg { ce } else { fl };
    let v = match which {
        0 => o::from_i128(o::rne_int(x)),
        1 => o::from_i128(fl),
        2 => o::from_i128(ce),
        3 => o::from_i128(tr),
        _ => o::sub(x, o::from_i128(tr)),
    };
    let (r, inex) = o::round_ex(n, es, v);
    // every such result is representable; if the oracle had to round, the property text itself is violated
    (r, !isint || inex)
}

//! Reference results built on the exact oracle (all patterns right-aligned in n bits).
use std::cmp::Ordering;
use vp_oracle as o;
pub use vp_oracle::{nar, Ex};

#[inline]
pub fn mask(n: u32) -> u32 {
    if n == 32 {
        u32::MAX
    } else {
        (1u32 << n) - 1
    }
}

/// (want, nontrivial) of a op b, op: 0 add 1 sub 2 mul 3 div
pub fn bin(n: u32, es: u32, op: u8, a: u32, b: u32) -> (u32, bool) {
    let (Some(x), Some(y)) = (o::decode(n, es, a), o::decode(n, es, b)) else { return (nar(n), true) };
    let v = match op {
        0 => o::add(x, y),
        1 => o::sub(x, y),
        2 => o::mul(x, y),
        _ => {
            if y.is_zero() {
                return (nar(n), true);
            }
            o::div(x, y)
        }
    };
    let (r, inex) = o::round_ex(n, es, v);
    (r, inex || (v.is_zero() && !x.is_zero() && !y.is_zero()))
}

/// kind: 0 a*b+c, 1 a*b-c, 2 c-a*b
pub fn fma(n: u32, es: u32, kind: u8, a: u32, b: u32, c: u32) -> (u32, bool) {
    let (Some(x), Some(y), Some(z)) = (o::decode(n, es, a), o::decode(n, es, b), o::decode(n, es, c)) else {
        return (nar(n), true);
    };
    let p = o::mul(x, y);
    let v = match kind {
        0 => o::add(p, z),
        1 => o::sub(p, z),
        _ => o::sub(z, p),
    };
    let (r, inex) = o::round_ex(n, es, v);
    (r, inex || (v.is_zero() && !p.is_zero()))
}

/// Branch-light decode of a positive, non-zero posit pattern `b` (< 2^(n-1), n <= 33): value = m * 2^e. Independent of
/// `vp_oracle::decode` (count-leading-zeros instead of a bit loop); `fdec_selftest` compares the two.
#[inline]
pub fn fdec(n: u32, es: u32, b: u64) -> (u64, i32) {
    let bl = n - 1; // body length
    let body = b << (64 - bl);
    let r0 = body >> 63;
    let run = (if r0 == 1 { (!body).leading_zeros() } else { body.leading_zeros() }).min(bl);
    let k: i32 = if r0 == 1 { run as i32 - 1 } else { -(run as i32) };
    let used = (run + 1).min(bl);
    let rest = if used >= 64 { 0 } else { body << used };
    let rest_len = bl - used;
    let ef = if es == 0 { 0 } else { (rest >> (64 - es)) as i32 };
    let nf = rest_len.saturating_sub(es);
    let frac = if nf == 0 { 0 } else { (rest << es) >> (64 - nf) };
    (((1u64 << nf) | frac), k * (1 << es) + ef - nf as i32)
}

/// compares m1 * 2^e1 with m2 * 2^e2; None when the magnitudes are too far apart to align in 128 bits
#[inline]
fn cmp_scaled(m1: u128, e1: i32, m2: u128, e2: i32) -> Option<Ordering> {
    let d = e1 - e2;
    if d >= 0 {
        if d as u32 >= m1.leading_zeros() {
            return None;
        }
        Some((m1 << d).cmp(&m2))
    } else {
        if (-d) as u32 >= m2.leading_zeros() {
            return None;
        }
        Some(m1.cmp(&(m2 << -d)))
    }
}

/// Fast acceptance test for a square root: `g` is the correctly rounded sqrt(a) iff lo^2 < a < hi^2 where lo, hi
/// are the rounding boundaries below and above g (the (n+1)-bit posits 2g-1 and 2g+1). Returns Some(inexact) when
/// g is *proved* correct this way; None when it is not (wrong, a boundary case, a special value): the caller then
/// falls back to the full reference, which also supplies the expected value. Exact integer arithmetic only.
#[inline]
pub fn sqrt_verify(n: u32, es: u32, a: u32, g: u32) -> Option<bool> {
    let top = (1u32 << (n - 1)) - 1;
    if a == 0 || a > top || g < 2 || g >= top - 1 {
        return None;
    }
    let (mx, ex) = fdec(n, es, a as u64);
    let (ml, el) = fdec(n + 1, es, 2 * g as u64 - 1);
    let (mh, eh) = fdec(n + 1, es, 2 * g as u64 + 1);
    let (mr, er) = fdec(n, es, g as u64);
    let sq = |m: u64| (m as u128) * (m as u128);
    if cmp_scaled(sq(ml), 2 * el, mx as u128, ex)? == Ordering::Less && cmp_scaled(mx as u128, ex, sq(mh), 2 * eh)? == Ordering::Less {
        Some(cmp_scaled(sq(mr), 2 * er, mx as u128, ex)? != Ordering::Equal)
    } else {
        None
    }
}

/// fdec against the reference decode: every P16E1 / 17-bit midpoint pattern, and a stride over 32/33-bit patterns for es = 1, 2, 0
pub fn fdec_selftest() {
    static ONCE: std::sync::Once = std::sync::Once::new();
    ONCE.call_once(fdec_selftest_run);
}

fn fdec_selftest_run() {
    let chk = |n: u32, es: u32, b: u64| {
        let x = o::decode64(n, es, b).unwrap();
        let (m, e) = fdec(n, es, b);
        let tz = x.m.trailing_zeros().min((m as u128).trailing_zeros());
        assert!(!x.neg && !x.sticky);
        // same value: compare after aligning exponents
        let (m1, e1, m2, e2) = (x.m >> tz, x.e + tz as i32, (m as u128) >> tz, e + tz as i32);
        assert!(cmp_scaled(m1, e1, m2, e2) == Some(Ordering::Equal), "fdec mismatch n={n} es={es} b={b:#x}");
    };
    for es in 0..3 {
        for n in [3u32, 8, 16, 17, 24] {
            for b in 1..(1u64 << (n - 1)).min(1 << 16) {
                chk(n, es, b);
            }
        }
        for n in [31u32, 32, 33] {
            let top = 1u64 << (n - 1);
            let mut b = 1u64;
            while b < top {
                chk(n, es, b);
                chk(n, es, top - b);
                b += 1 + b / 1021; // dense near the ends, geometric in between
            }
        }
    }
}

pub fn sqrt(n: u32, es: u32, a: u32) -> (u32, bool) {
    match o::decode(n, es, a) {
        None => (nar(n), true),
        Some(x) if x.neg => (nar(n), true),
        Some(x) => o::round_ex(n, es, o::sqrt(x)),
    }
}

/// order of the represented values, NaR below everything and equal to itself
pub fn ord(n: u32, es: u32, a: u32, b: u32) -> Ordering {
    match (o::decode(n, es, a), o::decode(n, es, b)) {
        (None, None) => Ordering::Equal,
        (None, _) => Ordering::Less,
        (_, None) => Ordering::Greater,
        (Some(x), Some(y)) => o::cmp(x, y),
    }
}

/// convert between posit formats: round(dn, des, decode(sn, ses, a))
pub fn conv(sn: u32, ses: u32, dn: u32, des: u32, a: u32) -> (u32, bool) {
    match o::decode(sn, ses, a) {
        None => (nar(dn), true),
        Some(v) => o::round_ex(dn, des, v),
    }
}

pub fn from_f64(n: u32, es: u32, x: f64) -> (u32, bool) {
    match o::from_f64(x) {
        None => (nar(n), true),
        Some(v) => o::round_ex(n, es, v),
    }
}

pub fn from_int(n: u32, es: u32, v: i128) -> (u32, bool) {
    o::round_ex(n, es, o::from_i128(v))
}

/// nearest-even integer of a posit clamped to [lo, hi]; None for NaR
pub fn to_int(n: u32, es: u32, a: u32, lo: i128, hi: i128) -> Option<i128> {
    o::decode(n, es, a).map(|x| o::rne_int(x).max(lo).min(hi))
}

/// which: 0 round 1 floor 2 ceil 3 trunc 4 fract
pub fn rounding(n: u32, es: u32, which: u8, a: u32) -> (u32, bool) {
    let Some(x) = o::decode(n, es, a) else { return (nar(n), true) };
    if x.is_zero() {
        return (0, false);
    }
    // huge values are integers already (and would not fit i128 arithmetic)
    if x.e >= 0 {
        return if which == 4 { (0, false) } else { (a & mask(n), false) };
    }
    let fl = o::floor_int(x);
    let isint = o::is_int(x);
    let ce = if isint { fl } else { fl + 1 };
    let tr = if x.neg { ce } else { fl };
    let v = match which {
        0 => o::from_i128(o::rne_int(x)),
        1 => o::from_i128(fl),
        2 => o::from_i128(ce),
        3 => o::from_i128(tr),
        _ => o::sub(x, o::from_i128(tr)),
    };
    let (r, inex) = o::round_ex(n, es, v);
    // every such result is representable; if the oracle had to round, the property text itself is violated
    (r, !isint || inex)
}

//! Boundary alphabets and lattices over posit / float / integer bit patterns (section 2.3 of DESIGN.md).

/// Boundary alphabet A(n, es): {0, NaR, +-maxpos, +-minpos} plus, for every regime (both
/// polarities, every run length) x every exponent value that fits x a menu of fraction shapes,
/// both signs. Patterns are right-aligned in n bits. Sorted, no duplicates.
pub fn alphabet(n: u32, es: u32, rich: bool) -> Vec<u32> {
    let mask: u32 = if n == 32 { u32::MAX } else { (1u32 << n) - 1 };
    let mut v = vec![0u32, 1u32 << (n - 1)];
    let body = n - 1;
    if n >= 2 {
        v.push((1u32 << (n - 1)) - 1); // maxpos
        v.push(1); // minpos
    }
    let maxk = n as i32 - 2;
    for k in -maxk..=maxk {
        let (rbits, rl): (u64, u32) = if k >= 0 { ((((1u64 << (k + 1)) - 1) << 1), (k + 2) as u32) } else { (1, (-k + 1) as u32) };
        if rl > body {
            continue;
        }
        let avail = body - rl;
        let ebits = avail.min(es);
        let nf = avail - ebits;
        for exs in 0..(1u32 << ebits) {
            let mut fr: Vec<u32> = vec![0];
            if nf > 0 {
                let full = ((1u64 << nf) - 1) as u32;
                let half = 1u32 << (nf - 1);
                fr.extend_from_slice(&[1, full, half]);
                if rich {
                    fr.extend_from_slice(&[full - 1, half | 1, half.wrapping_sub(1) & full, 0x5555_5555 & full, 0x2aaa_aaaa & full, 3 & full]);
                }
            }
            fr.sort();
            fr.dedup();
            for f in fr {
                let b = (((rbits as u32) << (body - rl)) | (exs << nf) | f) & mask;
                v.push(b);
                v.push(b.wrapping_neg() & mask);
            }
        }
    }
    v.sort();
    v.dedup();
    v
}

/// Lattice over all n-bit posits: every pattern whose low `low` bits are one of a small menu
/// (0, 1, all ones, top bit) and whose upper bits take every value. len = 2^(n-low) * 4.
pub fn lattice_len(n: u32, low: u32) -> u64 {
    (1u64 << (n - low)) * 4
}
pub fn lattice_key(n: u32, low: u32, i: u64) -> u32 {
    let hi = (i >> 2) as u32;
    let lowmask = (1u32 << low) - 1;
    let l = match i & 3 {
        0 => 0,
        1 => 1,
        2 => lowmask,
        _ => 1 << (low - 1),
    };
    let _ = n;
    (hi << low) | l
}

/// Structured doubles F64S: every sign x every exponent field x a mantissa alphabet that puts a
/// tie, tie+eps and tie-eps at every cut position.
pub fn f64_mantissas() -> Vec<u64> {
    let mut v: Vec<u64> = vec![0, 1, (1u64 << 52) - 1, (1u64 << 52) - 2, 1u64 << 51, (1u64 << 51) | 1, (1u64 << 51) - 1];
    for c in 0..=52u32 {
        // c = number of kept mantissa bits (from the top)
        let kept_n = c;
        let rest_n = 52 - c;
        let prefixes: Vec<u64> = if kept_n == 0 {
            vec![0]
        } else {
            let full = (1u64 << kept_n) - 1;
            let mut p = vec![0, 1, full, full - (full > 0) as u64, 0x5555_5555_5555_5555 & full, 0xAAAA_AAAA_AAAA_AAAA & full];
            p.sort();
            p.dedup();
            p
        };
        for p in prefixes {
            if rest_n == 0 {
                v.push(p);
                continue;
            }
            for guard in 0..2u64 {
                let tail_n = rest_n - 1;
                let tails: Vec<u64> = if tail_n == 0 { vec![0] } else { vec![0, 1, 1u64 << (tail_n - 1), (1u64 << tail_n) - 1] };
                for t in tails {
                    v.push((p << rest_n) | (guard << tail_n) | t);
                }
            }
        }
    }
    v.sort();
    v.dedup();
    v
}

/// next representable double above / below (finite, non-zero inputs)
pub fn f64_next_up(x: f64) -> f64 {
    let b = x.to_bits();
    if x > 0.0 {
        f64::from_bits(b + 1)
    } else if x < 0.0 {
        f64::from_bits(b - 1)
    } else {
        f64::from_bits(1)
    }
}
pub fn f64_next_down(x: f64) -> f64 {
    -f64_next_up(-x)
}

/// 64-bit integer lattice (I64S/U64S): a 20-bit head (all values) placed at every shift position
/// with three low fills.
pub fn u64_lattice_len(head_bits: u32) -> u64 {
    (1u64 << head_bits) * 64 * 3
}
pub fn u64_lattice(head_bits: u32, i: u64) -> u64 {
    let fill = i % 3;
    let sh = ((i / 3) % 64) as u32;
    let head = i / (3 * 64);
    let low = if sh == 0 {
        0
    } else {
        match fill {
            0 => 0,
            1 => (1u64 << sh) - 1,
            _ => 1,
        }
    };
    let _ = head_bits;
    (head << sh) | low
}

/// fraction shapes of width nf (values < 2^nf): runs of ones from the top, runs of ones at the bottom,
/// single bits, and a small menu
pub fn shapes(nf: u32, rich: bool) -> Vec<u32> {
    if nf == 0 {
        return vec![0];
    }
    let full = ((1u64 << nf) - 1) as u32;
    let mut v = vec![0, 1, full, full - (full > 0) as u32, 1 << (nf - 1), (1 << (nf - 1)) | 1, (1u32 << (nf - 1)).wrapping_sub(1) & full, 0x5555_5555 & full, 0x2aaa_aaaa & full];
    for j in 1..nf {
        v.push(full & !(((1u64 << (nf - j)) - 1) as u32)); // 1^j 0^(nf-j)
        v.push(((1u64 << j) - 1) as u32); // 0^(nf-j) 1^j
        if rich {
            v.push(1 << j);
            v.push((full & !(((1u64 << (nf - j)) - 1) as u32)) | 1); // 1^j 0.. 1
        }
    }
    v.sort();
    v.dedup();
    v
}

/// positive posit with the given scale (= es-exponent + 2^es * regime k) and fraction shape index;
/// returns None when the scale is out of range
pub fn build(n: u32, es: u32, scale: i32, frac_of: impl Fn(u32) -> u32) -> Option<u32> {
    let useed = 1i32 << es;
    let k = scale.div_euclid(useed);
    let e = scale.rem_euclid(useed) as u32;
    let body = n - 1;
    let rl: u32 = if k >= 0 { (k + 2) as u32 } else { (-k + 1) as u32 };
    if rl > body {
        return None;
    }
    let rbits: u64 = if k >= 0 { ((1u64 << (k + 1)) - 1) << 1 } else { 1 };
    let avail = body - rl;
    let ebits = avail.min(es);
    if ebits < es && (e & ((1 << (es - ebits)) - 1)) != 0 {
        return None;
    }
    let nf = avail - ebits;
    let f = frac_of(nf);
    Some(((rbits as u32) << (body - rl)) | ((e >> (es - ebits)) << nf) | f)
}

pub fn frac_bits(n: u32, es: u32, scale: i32) -> Option<u32> {
    let nf = std::cell::Cell::new(0);
    build(n, es, scale, |x| {
        nf.set(x);
        0
    })?;
    Some(nf.get())
}


/// "Tie plus one lone bit" values for the target format (n, es): for every representable scale s and a menu
/// of kept fractions F (even and odd last bit), the exact value 2^s * (1.F 1 0...0 1): the guard bit set and a
/// single further bit d places below the guard, for every d in 1..=depth; plus the exact tie itself (d = 0).
/// Returned as (mantissa, exponent): value = mantissa * 2^exponent, mantissa odd except for d = 0.
/// A converter that loses exactly one sticky position (or double-rounds through a narrower intermediate)
/// misrounds one of these; sources keep the ones they can represent exactly.
pub fn tie_bit_values(n: u32, es: u32, depth: u32, scales: std::ops::RangeInclusive<i32>) -> Vec<(u128, i32)> {
    let mut v = vec![];
    for s in scales {
        let Some(nf) = frac_bits(n, es, s) else { continue };
        let full = if nf == 0 { 0 } else { ((1u64 << nf) - 1) as u32 };
        let mut fr = vec![0u32, 1 & full, full, full & !1, (0x5555_5555 & full), (0x2aaa_aaaa & full), (0x1234_5679 & full), (0x0edc_ba98 & full)];
        fr.sort();
        fr.dedup();
        for f in fr {
            let head: u128 = (((1u128 << nf) | f as u128) << 1) | 1; // 1.F followed by the guard bit
            v.push((head, s - nf as i32 - 1));
            for d in 1..=depth {
                if nf + 2 + d > 120 {
                    break;
                }
                v.push(((head << d) | 1, s - nf as i32 - 1 - d as i32));
            }
        }
    }
    v
}

/// "Cut x tail" alphabet: for every representable scale, every cut position c inside the fraction (c kept bits), a menu
/// of kept prefixes (zeros, ones, alternating, two fixed unstructured patterns), *every* pattern of the `tail_bits` bits
/// directly below the cut, and the remaining low bits all zero / all one; both signs. Whatever a conversion's rounding
/// position is (an f32's 23 bits, a narrower posit's fraction, an integer's binary point), every combination of the bits
/// next to it occurs with every scale.
pub fn cut_tail_alphabet(n: u32, es: u32, tail_bits: u32) -> Vec<u32> {
    let m: u32 = if n == 32 { u32::MAX } else { (1u32 << n) - 1 };
    let lim = (n as i32 - 2) * (1 << es);
    let mut v = vec![];
    for s in -lim..=lim {
        let Some(nf) = frac_bits(n, es, s) else { continue };
        let Some(base) = build(n, es, s, |_| 0) else { continue };
        for c in 0..nf {
            let below = nf - c; // bits below the cut
            let tb = tail_bits.min(below);
            let rest = below - tb;
            let full_c = if c == 0 { 0 } else { ((1u64 << c) - 1) as u32 };
            let mut prefixes = vec![0u32, full_c, 0x5555_5555 & full_c, 0x1234_5679 & full_c, 0x0edc_ba98 & full_c];
            prefixes.sort();
            prefixes.dedup();
            for &p in &prefixes {
                for t in 0..(1u32 << tb) {
                    for fill in [0u32, if rest == 0 { 0 } else { ((1u64 << rest) - 1) as u32 }] {
                        let f = ((p as u64) << below | (t as u64) << rest | fill as u64) as u32;
                        let x = base | f;
                        v.push(x);
                        v.push(x.wrapping_neg() & m);
                    }
                }
            }
        }
    }
    v.sort();
    v.dedup();
    v
}

//! Boundary alphabets and lattices over posit / float / integer bit patterns (section 2.3 of DESIGN.md).

/// Boundary alphabet A(n, es): {0, NaR, +-maxpos, +-minpos} plus, for every regime (both
/// polarities, every run length) x every exponent value that fits x a menu of fraction shapes,
/// both signs. Patterns are right-aligned in n bits. Sorted, no duplicates.
pub fn alphabet(n: u32, es: u32, rich: bool) -> Vec<u32> {
    let mask: u32 = if n == 32 { u32::MAX } else { (1u32 << n) - 1 };
    let mut v = vec![0u32, 1u32 << (n - 1)];
    let body = n - 1;
    if n >= 2 {
        v.push((1u32 << (n - 1)) - 1); // maxpos
        v.push(1); // minpos
    }
    let maxk = n as i32 - 2;
    for k in -maxk..=maxk {
        let (rbits, rl): (u64, u32) = if k >= 0 { ((((1u64 << (k + 1)) - 1) << 1), (k + 2) as u32) } else { (1, (-k + 1) as u32) };
        if rl > body {
            continue;
        }
        let avail = body - rl;
        let ebits = avail.min(es);
        let nf = avail - ebits;
        for exs in 0..(1u32 << ebits) {
            let mut fr: Vec<u32> = vec![0];
            if nf > 0 {
                let full = ((1u64 << nf) - 1) as u32;
                let half = 1u32 << (nf - 1);
                fr.extend_from_slice(&[1, full, half]);
                if rich {
                    fr.extend_from_slice(&[full - 1, half | 1, half.wrapping_sub(1) & full, 0x5555_5555 & full, 0x2aaa_aaaa & full, 3 & full]);
                }
            }
            fr.sort();
            fr.dedup();
            for f in fr {
                let b = (((rbits as u32) << (body - rl)) | (exs << nf) | f) & mask;
                v.push(b);
                v.push(b.wrapping_neg() & mask);
            }
        }
    }
    v.sort();
    v.dedup();
    v
}

/// Lattice over all n-bit posits: every pattern whose low `low` bits are one of a small menu
/// (0, 1, all ones, top bit) and whose upper bits take every value. len = 2^(n-low) * 4.
pub fn lattice_len(n: u32, low: u32) -> u64 {
    (1u64 << (n - low)) * 4
}
pub fn lattice_key(n: u32, low: u32, i: u64) -> u32 {
    let hi = (i >> 2) as u32;
    let lowmask = (1u32 << low) - 1;
    let l = match i & 3 {
        0 => 0,
        1 => 1,
        2 => lowmask,
        _ => 1 << (low - 1),
    };
    let _ = n;
    (hi << low) | l
}

/// Structured doubles F64S: every sign x every exponent field x a mantissa alphabet that puts a
/// tie, tie+eps and tie-eps at every cut position.
pub fn f64_mantissas() -> Vec<u64> {
    let mut v: Vec<u64> = vec![0, 1, (1u64 << 52) - 1, (1u64 << 52) - 2, 1u64 << 51, (1u64 << 51) | 1, (1u64 << 51) - 1];
    for c in 0..=52u32 {
        // c = number of kept mantissa bits (from the top)
        let kept_n = c;
        let rest_n = 52 - c;
        let prefixes: Vec<u64> = if kept_n == 0 {
            vec![0]
        } else {
            let full = (1u64 << kept_n) - 1;
            let mut p = vec![0, 1, full, full - (full > 0) as u64, 0x5555_5555_5555_5555 & full, 0xAAAA_AAAA_AAAA_AAAA & full];
            p.sort();
            p.dedup();
            p
        };
        for p in prefixes {
            if rest_n == 0 {
                v.push(p);
                continue;
            }
            for guard in 0..2u64 {
                let tail_n = rest_n - 1;
                let tails: Vec<u64> = if tail_n == 0 { vec![0] } else { vec![0, 1, 1u64 << (tail_n - 1), (1u64 << tail_n) - 1] };
                for t in tails {
                    v.push((p << rest_n) | (guard << tail_n) | t);
                }
            }
        }
    }
    v.sort();
    v.dedup();
    v
}

/// next representable double above / below (finite, non-zero inputs)
pub fn f64_next_up(x: f64) -> f64 {
    let b = x.to_bits();
    if x > 0.0 {
        f64::from_bits(b + 1)
    } else if x < 0.0 {
        f64::from_bits(b - 1)
    } else {
        f64::from_bits(1)
    }
}
pub fn f64_next_down(x: f64) -> f64 {
    -f64_next_up(-x)
}

/// 64-bit integer lattice (I64S/U64S): a 20-bit head (all values) placed at every shift position
/// with three low fills.
pub fn u64_lattice_len(head_bits: u32) -> u64 {
    (1u64 << head_bits) * 64 * 3
}
pub fn u64_lattice(head_bits: u32, i: u64) -> u64 {
    let fill = i % 3;
    let sh = ((i / 3) % 64) as u32;
    let head = i / (3 * 64);
    let low = if sh == 0 {
        0
    } else {
        match fill {
            0 => 0,
            1 => (1u64 << sh) - 1,
            _ => 1,
        }
    };
    let _ = head_bits;
    (head << sh) | low
}

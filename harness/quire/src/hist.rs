//! History layer of C04/C12: explicit-state exploration (stateright) of the *real* quire.
//!
//! State  = the real quire's bit image (+ depth + a "transition disagreed" flag).
//! Action = one operation of a small alphabet chosen to force carries, borrows, cancellation and NaR.
//! next_state rebuilds the real quire from the bits, applies the real operation and compares the new
//! bit image with the exact integer model; histories whose exact partial sum leaves the quire's range
//! are pruned (the property is conditional on staying in range).
//! Properties (evaluated on every reachable state): transition agreement, is_zero / is_nar /
//! to_posit = round(sum), and the C12 state operations neg / clear / from_bits(to_bits) / split.
use crate::cells::{expect, observe, p_of};
use crate::qx::*;
use serde_json::{json, Value};
use stateright::{Checker, Model, Property};
use std::marker::PhantomData;
use std::sync::atomic::{AtomicU64, Ordering};
use std::sync::Arc;
use vp_oracle::W512;
use vpchecks::fx::Fx;
use vpcore::guard;

#[derive(Clone, Debug, Hash, PartialEq, Eq)]
pub struct St {
    pub bits: [u64; 8],
    pub depth: u8,
    pub bad: u8,
}

#[derive(Clone, Debug, PartialEq, Eq, Hash)]
pub enum Act {
    AddProd(u32, u32),
    SubProd(u32, u32),
    AddP(u32),
    SubP(u32),
    AddT12(u32, u32, u32),
    SubT22(u32, u32, u32, u32),
    AddArr3(u32, u32, u32, u32),
    Neg,
    Clear,
}

pub struct Hist<Q: Qx> {
    pub acts: Vec<Act>,
    pub depth: u8,
    pub transitions: Arc<Vec<AtomicU64>>,
    pub pruned: Arc<AtomicU64>,
    pub carries: Arc<AtomicU64>,
    _q: PhantomData<Q>,
}

fn shard() -> usize {
    thread_local! { static T: usize = { static C: AtomicU64 = AtomicU64::new(0); (C.fetch_add(1, Ordering::Relaxed) % 64) as usize }; }
    T.with(|t| *t)
}

impl<Q: Qx> Hist<Q> {
    pub fn new(acts: Vec<Act>, depth: u8) -> Self {
        Hist {
            acts,
            depth,
            transitions: Arc::new((0..64 * 8).map(|_| AtomicU64::new(0)).collect()),
            pruned: Arc::new(AtomicU64::new(0)),
            carries: Arc::new(AtomicU64::new(0)),
            _q: PhantomData,
        }
    }
    pub fn transitions(&self) -> u64 {
        self.transitions.iter().map(|a| a.load(Ordering::Relaxed)).sum()
    }
    /// exact model of one action
    pub fn model_step(s: M, a: &Act) -> M {
        let add = |s: M, t: Option<W512>, plus: bool| m_add::<Q>(s, t, plus);
        match *a {
            Act::AddProd(x, y) => add(s, prod::<Q>(x, y), true),
            Act::SubProd(x, y) => add(s, prod::<Q>(x, y), false),
            Act::AddP(x) => add(s, single::<Q>(x), true),
            Act::SubP(x) => add(s, single::<Q>(x), false),
            Act::AddT12(x, y, z) => add(add(s, prod::<Q>(x, y), true), prod::<Q>(x, z), true),
            Act::SubT22(a, b, c, d) => {
                let mut s = s;
                for (x, y) in [(a, c), (a, d), (b, c), (b, d)] {
                    s = add(s, prod::<Q>(x, y), false);
                }
                s
            }
            Act::AddArr3(a, b, c, d) => {
                let mut s = s;
                for y in [b, c, d] {
                    s = add(s, prod::<Q>(a, y), true);
                }
                s
            }
            Act::Neg => match s {
                M::Val(v) => M::Val(v.neg()),
                o => o,
            },
            Act::Clear => M::Val(W512::ZERO),
        }
    }
    /// the real code's step
    pub fn real_step(q: &mut Q, a: &Act) {
        let p = |x: u32| p_of::<Q>(x);
        match *a {
            Act::AddProd(x, y) => q.add_prod(p(x), p(y)),
            Act::SubProd(x, y) => q.sub_prod(p(x), p(y)),
            Act::AddP(x) => q.add_p(p(x)),
            Act::SubP(x) => q.sub_p(p(x)),
            Act::AddT12(x, y, z) => q.add_t12(p(x), p(y), p(z)),
            Act::SubT22(a, b, c, d) => q.sub_t22(p(a), p(b), p(c), p(d)),
            Act::AddArr3(a, b, c, d) => q.add_arr(p(a), &[p(b), p(c), p(d)]),
            Act::Neg => q.neg(),
            Act::Clear => q.clear(),
        }
    }
}

/// every intermediate partial sum of a composite action must stay in range too
fn composite_in_range<Q: Qx>(s: M, a: &Act) -> bool {
    Hist::<Q>::model_step(s, a) != M::Out
}

impl<Q: Qx> Model for Hist<Q> {
    type State = St;
    type Action = Act;

    fn init_states(&self) -> Vec<St> {
        vec![St { bits: [0; 8], depth: 0, bad: 0 }]
    }

    fn actions(&self, s: &St, out: &mut Vec<Act>) {
        if s.depth < self.depth && s.bad == 0 {
            out.extend(self.acts.iter().cloned());
        }
    }

    fn next_state(&self, s: &St, a: Act) -> Option<St> {
        let w = W512(s.bits);
        let before = decode_state::<Q>(&w);
        let after = Self::model_step(before, &a);
        if !composite_in_range::<Q>(before, &a) {
            self.pruned.fetch_add(1, Ordering::Relaxed);
            return None;
        }
        self.transitions[shard() * 8].fetch_add(1, Ordering::Relaxed);
        let got = guard(|| {
            let mut q = Q::from_w(&w);
            Self::real_step(&mut q, &a);
            q.to_w()
        });
        let want = image::<Q>(after);
        if let (M::Val(x), M::Val(y)) = (before, after) {
            if (1..8).any(|i| x.0[i] != y.0[i]) {
                self.carries.fetch_add(1, Ordering::Relaxed);
            }
        }
        Some(match got {
            Some(g) => St { bits: if g == want { g.0 } else { g.0 }, depth: s.depth + 1, bad: (g != want) as u8 },
            None => St { bits: want.0, depth: s.depth + 1, bad: 2 },
        })
    }

    fn properties(&self) -> Vec<Property<Self>> {
        vec![
            Property::<Self>::always("C04: every transition of the real quire equals the exact integer model", |_, s| s.bad == 0),
            Property::<Self>::always("C04: is_zero / is_nar / to_posit = round(sum) on every reachable state", |_, s| {
                if s.bad != 0 {
                    return true;
                }
                let w = W512(s.bits);
                let m = decode_state::<Q>(&w);
                guard(|| observe(&Q::from_w(&w))) == Some(expect::<Q>(m))
            }),
            Property::<Self>::always("C12: neg, clear, from_bits(to_bits), into_two/three_posits on every reachable state", |_, s| {
                if s.bad != 0 {
                    return true;
                }
                let w = W512(s.bits);
                state_ops_ok::<Q>(&w)
            }),
        ]
    }
}

pub fn state_ops_ok<Q: Qx>(w: &W512) -> bool {
    let m = decode_state::<Q>(w);
    let negw = match m {
        M::Val(v) => v.neg(),
        _ => nar_image(Q::W),
    };
    let (p1, _) = round_state::<Q>(m);
    let s1 = m_add::<Q>(m, single::<Q>(p1), false);
    let (p2, _) = round_state::<Q>(s1);
    let s2 = m_add::<Q>(s1, single::<Q>(p2), false);
    let (p3, _) = round_state::<Q>(s2);
    guard(|| {
        let mut q = Q::from_w(w);
        let mut ok = q.to_w() == *w && q.t_roundtrip_bits() == *w;
        q.neg();
        ok &= q.to_w() == negw;
        q.clear();
        ok &= q.is_zero() && q.to_w().is_zero();
        if s1 != M::Out && s2 != M::Out {
            let (a1, a2) = Q::from_w(w).into_two();
            let (b1, b2, b3) = Q::from_w(w).into_three();
            ok &= a1.tb() == p1 && a2.tb() == p2 && b1.tb() == p1 && b2.tb() == p2 && b3.tb() == p3;
        }
        ok
    }) == Some(true)
}

/// operand alphabet forcing carries, borrows, cancellation, saturation and NaR
pub fn action_alphabet<Q: Qx>(rich: bool) -> Vec<Act> {
    let n = <Q::P as Fx>::N;
    let m = if n == 32 { u32::MAX } else { (1u32 << n) - 1 };
    let one = 1u32 << (n - 2);
    let minpos = 1u32;
    let maxpos = (1u32 << (n - 1)) - 1;
    let neg = |x: u32| x.wrapping_neg() & m;
    let full = one + (one >> (<Q::P as Fx>::ES + 1)) - 1; // 1.111..1 (the pattern just below 2.0)
    let onep = one + 1; // 1 + ulp
    let nar = 1u32 << (n - 1);
    let mut a = vec![
        Act::AddProd(minpos, minpos), // one quire ulp
        Act::SubProd(minpos, minpos),
        Act::AddProd(maxpos, maxpos), // top of the range
        Act::SubProd(maxpos, maxpos),
        Act::AddProd(maxpos, minpos), // = 1
        Act::AddProd(full, full),
        Act::SubProd(full, onep),
        Act::AddProd(onep, neg(onep)),
        Act::AddP(one),
        Act::SubP(one),
        Act::AddP(maxpos),
        Act::SubP(minpos),
        Act::AddP(neg(full)),
        Act::AddT12(onep, full, neg(one)),
        Act::Neg,
        Act::Clear,
        Act::AddProd(nar, one),
    ];
    if rich {
        let half = one >> 1; // a smaller regime
        a.extend([
            Act::SubP(full),
            Act::AddProd(half, minpos),
            Act::SubProd(maxpos, half),
            Act::SubT22(one, onep, full, minpos),
            Act::AddArr3(full, one, neg(onep), maxpos),
            Act::AddP(0),
            Act::SubP(nar),
        ]);
    }
    a
}

pub struct HistResult {
    pub unique_states: u64,
    pub generated: u64,
    pub transitions: u64,
    pub pruned: u64,
    pub carries: u64,
    pub max_depth: u64,
    pub violations: Vec<(String, Value)>,
    pub sample: Value,
    pub wall_s: f64,
}

pub fn explore<Q: Qx>(depth: u8, rich: bool, threads: usize, prop_filter: &str) -> HistResult {
    let t0 = std::time::Instant::now();
    let acts = action_alphabet::<Q>(rich);
    let model = Hist::<Q>::new(acts.clone(), depth);
    let tr = model.transitions.clone();
    let pr = model.pruned.clone();
    let ca = model.carries.clone();
    let checker = model.checker().threads(threads).spawn_bfs().join();
    let unique = checker.unique_state_count() as u64;
    let generated = checker.state_count() as u64;
    let maxd = checker.max_depth() as u64;
    let mut violations = vec![];
    for (name, path) in checker.discoveries() {
        if !name.starts_with(prop_filter) {
            continue;
        }
        let v: Vec<(St, Option<Act>)> = path.into_vec();
        let actions: Vec<String> = v.iter().filter_map(|(_, a)| a.as_ref().map(|a| format!("{a:?}"))).collect();
        let last = &v.last().unwrap().0;
        violations.push((
            format!("{}_history_{}", Q::NAME, &name[..3]),
            json!({"property": &name[..3], "cell": format!("{}/history", Q::NAME), "violated": name, "history": actions,
                   "final_state_bits_le": last.bits.iter().map(|x| format!("{x:#018x}")).collect::<Vec<_>>(), "flag": last.bad,
                   "note": "replay: apply the history to a cleared quire; flag 1 = bit image differs from the exact sum, 2 = panic"}),
        ));
    }
    // determinism guard: a second, depth-first run must see the same number of unique states
    let model2 = Hist::<Q>::new(acts.clone(), depth);
    let c2 = model2.checker().threads(threads).spawn_dfs().join();
    let unique2 = c2.unique_state_count() as u64;
    if violations.is_empty() && unique2 != unique {
        violations.push((
            format!("{}_nondeterminism", Q::NAME),
            json!({"cell": format!("{}/history", Q::NAME), "violated": "BFS and DFS explored different numbers of unique states", "bfs": unique, "dfs": unique2}),
        ));
    }
    let transitions: u64 = tr.iter().map(|a| a.load(Ordering::Relaxed)).sum();
    HistResult {
        unique_states: unique,
        generated,
        transitions,
        pruned: pr.load(Ordering::Relaxed),
        carries: ca.load(Ordering::Relaxed),
        max_depth: maxd,
        violations,
        sample: json!({"cell": format!("{}/history", Q::NAME), "actions": acts.iter().map(|a| format!("{a:?}")).collect::<Vec<_>>(), "depth": depth}),
        wall_s: t0.elapsed().as_secs_f64(),
    }
}

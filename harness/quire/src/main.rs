fn main(){}

//! Engine for the quire properties: C04 (accumulation), C12 (state operations), C18 (polynomials).
mod cells;
mod hist;
mod poly;
mod qx;

use serde_json::json;
use softposit::{Q16E1, Q32E2, Q8E0};
use vpcore::{run_cells, CellDef, Cfg, Extra, Report};

fn hist_part<Q: qx::Qx>(cfg: &Cfg, extra: &mut Extra, depth: u8, rich: bool) {
    let pf = if cfg.prop == "C12" { "C12" } else { "C04" };
    let r = hist::explore::<Q>(depth, rich, cfg.threads, pf);
    eprintln!(
        "  [{}] {}/history depth<={} actions={} unique_states={} transitions={} pruned(out of range)={} limb-carries={} {:.1}s",
        cfg.prop,
        Q::NAME,
        depth,
        hist::action_alphabet::<Q>(rich).len(),
        r.unique_states,
        r.transitions,
        r.pruned,
        r.carries,
        r.wall_s
    );
    extra.states += r.unique_states;
    extra.transitions += r.transitions;
    extra.validated += r.transitions;
    extra.nontrivial += r.carries;
    extra.samples.push(r.sample);
    extra.tables.push(json!({"explorer": "stateright 0.31 BFS (+DFS recount)", "cell": format!("{}/history", Q::NAME), "depth_bound": depth,
        "unique_states": r.unique_states, "states_generated": r.generated, "transitions_checked_against_model": r.transitions,
        "transitions_into_already_seen_states (different histories, same exact sum, same bits)": r.generated.saturating_sub(r.unique_states),
        "histories_pruned_out_of_range": r.pruned, "transitions_with_cross_limb_carry": r.carries, "max_depth": r.max_depth, "wall_s": r.wall_s}));
    extra.violations.extend(r.violations);
}

fn main() {
    let cfg = Cfg::from_args();
    let t = cfg.thorough();
    let mut cells: Vec<CellDef> = vec![];
    let mut extra = Extra::default();
    match cfg.prop.as_str() {
        "C04" | "C12" => {
            let want = cfg.prop.clone();
            let mut all = vec![];
            all.extend(cells::from_zero::<Q8E0>(t));
            all.extend(cells::from_zero::<Q16E1>(t));
            all.extend(cells::from_zero::<Q32E2>(t));
            all.extend(cells::from_seeds::<Q8E0>(t));
            all.extend(cells::from_seeds::<Q16E1>(t));
            all.extend(cells::from_seeds::<Q32E2>(t));
            all.extend(cells::q8_state_space::<Q8E0>(t));
            all.extend(cells::window_states::<Q16E1>(t));
            all.extend(cells::window_states::<Q32E2>(t));
            all.extend(cells::state_ops_after::<Q8E0>(t));
            all.extend(cells::state_ops_after::<Q16E1>(t));
            all.extend(cells::state_ops_after::<Q32E2>(t));
            if want == "C04" {
                all.extend(cells::order_independence::<Q8E0>(t));
                all.extend(cells::order_independence::<Q16E1>(t));
                all.extend(cells::order_independence::<Q32E2>(t));
                all.extend(cells::spellings::<Q8E0>(t));
                all.extend(cells::spellings::<Q16E1>(t));
                all.extend(cells::spellings::<Q32E2>(t));
                all.extend(cells::array_gaps::<Q8E0>(t));
                all.extend(cells::array_gaps::<Q16E1>(t));
                all.extend(cells::array_gaps::<Q32E2>(t));
            }
            cells = all.into_iter().filter(|c| c.prop == want).collect();
            if cfg.replay.is_none() && cfg.eval.is_none() && cfg.cell_filter.is_none() {
                let dflt = if t { (10, 9, 9) } else { (8, 8, 8) };
                let dd: Vec<u8> = cfg.extra.get("depth").map(|s| s.split(',').map(|x| x.parse().unwrap()).collect()).unwrap_or_default();
                let (d8, d16, d32) = if dd.len() == 3 { (dd[0], dd[1], dd[2]) } else { dflt };
                vpcore::install_panic_hook();
                hist_part::<Q8E0>(&cfg, &mut extra, d8, t);
                hist_part::<Q16E1>(&cfg, &mut extra, d16, t);
                hist_part::<Q32E2>(&cfg, &mut extra, d32, t);
            }
        }
        "C18" => {
            cells = poly::cells(t);
        }
        "C17" => {
            // Quire / AssociatedQuire trait methods, add_product/sub_product methods, tuple and array spellings
            let mut all = vec![];
            all.extend(cells::spellings::<Q8E0>(t));
            all.extend(cells::spellings::<Q16E1>(t));
            all.extend(cells::spellings::<Q32E2>(t));
            all.extend(cells::array_gaps::<Q8E0>(t));
            all.extend(cells::array_gaps::<Q16E1>(t));
            all.extend(cells::array_gaps::<Q32E2>(t));
            for c in all.iter_mut() {
                c.prop = "C17";
            }
            cells = all;
        }
        p => {
            eprintln!("vp_quire: no cells for property {p}");
            std::process::exit(2);
        }
    }
    let rep = Report {
        rule: "transition layer: every (seed state, operation) case is executed on the real quire and its full bit image, is_zero, is_nar and to_posit are compared with an exact 512-bit integer model; history layer: stateright explores every history of the action alphabet up to the depth bound on the real quire, checking every transition and every reachable state; non-trivial = carry/borrow across a 64-bit limb, sign change, cancellation to zero, NaR, or a to_posit that rounds".into(),
        assumptions: vec![
            "rustc/LLVM compile the oracle and the crate correctly".into(),
            "the reference model (vp_oracle: exact rationals, 512-bit integers, posit-rule rounding)".into(),
            "histories whose exact partial sum leaves the quire range are pruned (the property is conditional on staying in range)".into(),
        ],
        bound: format!("all cells and all histories up to the depth bound complete ({} tier)", cfg.tier),
    };
    std::process::exit(run_cells(&cfg, cells, extra, rep));
}

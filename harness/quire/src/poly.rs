//! C18: polynomial evaluation = its fused-dot-product definition, in the documented quire stages.
use crate::cells::thin;
use softposit::{Polynom, P16E1, P32E2, P8E0};
use vp_oracle as o;
use vp_oracle::W512;
use vpchecks::fx::Fx;
use vpcore::alpha::alphabet;
use vpcore::{guard, CellDef, Out, Space};

fn prod(n: u32, es: u32, a: u32, b: u32) -> Option<W512> {
    let (Some(x), Some(y)) = (o::decode(n, es, a), o::decode(n, es, b)) else { return None };
    let p = o::mul(x, y);
    if p.is_zero() {
        return Some(W512::ZERO);
    }
    let w = W512::from_shifted(p.m, (p.e + 240) as u32).expect("fits");
    Some(if p.neg { w.neg() } else { w })
}

fn rmul(n: u32, es: u32, a: u32, b: u32) -> u32 {
    match (o::decode(n, es, a), o::decode(n, es, b)) {
        (Some(x), Some(y)) => o::round(n, es, o::mul(x, y)),
        _ => o::nar(n),
    }
}

/// exact sum of power*part over all terms, rounded once (512-bit accumulator with 240 fraction bits holds every format)
fn fused(n: u32, es: u32, terms: &[(u32, Vec<u32>)]) -> (u32, bool) {
    let mut acc = W512::ZERO;
    for (pw, parts) in terms {
        for &c in parts {
            match prod(n, es, *pw, c) {
                None => return (o::nar(n), true),
                Some(w) => acc = acc.add(w),
            }
        }
    }
    o::round_ex(n, es, acc.to_ex(240))
}

/// block sizes (degree handled by each quire stage), first stage first
pub fn blocks(kind: &str) -> Vec<usize> {
    fn b(d: usize) -> Vec<usize> {
        match d {
            1..=4 => vec![d],
            5 => vec![2, 3],
            6 => vec![3, 3],
            7 => vec![3, 4],
            8 => vec![4, 4],
            _ => {
                let mut v = b(d - 4);
                v.push(4);
                v
            }
        }
    }
    match kind {
        "3a" => vec![1, 2],
        "4a" => vec![2, 2],
        k => b(k.parse().unwrap()),
    }
}

/// reference: c highest degree first, each coefficient a list of parts
pub fn ref_poly(n: u32, es: u32, kind: &str, x: u32, c: &[Vec<u32>]) -> (u32, bool) {
    let one = 1u32 << (n - 2);
    let x2 = rmul(n, es, x, x);
    let x3 = rmul(n, es, x2, x);
    let x4 = rmul(n, es, x2, x2);
    let pw = [one, x, x2, x3, x4];
    let bl = blocks(kind);
    let mut idx = 0usize;
    let mut p: u32 = 0;
    let mut nt = false;
    for (bi, &b) in bl.iter().enumerate() {
        let mut terms: Vec<(u32, Vec<u32>)> = vec![];
        if bi == 0 {
            for j in 0..=b {
                terms.push((pw[b - j], c[idx + j].clone()));
            }
            idx += b + 1;
        } else {
            terms.push((pw[b], vec![p]));
            for j in 1..=b {
                terms.push((pw[b - j], c[idx + j - 1].clone()));
            }
            idx += b;
        }
        let (r, inex) = fused(n, es, &terms);
        p = r;
        nt |= inex;
    }
    assert_eq!(idx, c.len());
    (p, nt)
}

/// coefficient alphabet: 0, +-1, +-minpos, +-maxpos, NaR, half-ulp breakers
fn coef_alphabet(n: u32, es: u32, thorough: bool) -> Vec<u32> {
    let m = if n == 32 { u32::MAX } else { (1u32 << n) - 1 };
    let one = 1u32 << (n - 2);
    let mut v = vec![0, one, one.wrapping_neg() & m, 1, m, (1u32 << (n - 1)) - 1, (1u32 << (n - 1)) + 1, 1u32 << (n - 1), one + 1, one - 1, (one >> 1) | 1];
    let al = alphabet(n, es, false);
    v.extend(thin(&al, if thorough { (al.len() / 48).max(1) } else { (al.len() / 12).max(1) }));
    v.sort();
    v.dedup();
    v
}

/// pairwise distinct fingerprint coefficients (so that any index slip changes the exact sum)
fn fingerprint(n: u32, es: u32, count: usize) -> Vec<u32> {
    let one = 1u32 << (n - 2);
    let _ = es;
    // 1 + j*ulp-ish values with alternating signs and varying scale, all exactly representable
    (0..count)
        .map(|j| {
            let step = (one >> 3).max(1);
            let v = one.wrapping_add((j as u32 + 1).wrapping_mul(step / 4 + 1)) & ((1u32 << (n - 1)) - 1);
            let v = if v == 0 { one } else { v };
            if j % 3 == 2 {
                v.wrapping_neg() & (if n == 32 { u32::MAX } else { (1u32 << n) - 1 })
            } else {
                v
            }
        })
        .collect()
}

macro_rules! poly_cell {
    ($v:ident, $mode:tt, $P:ty, $len:literal, $m:ident, $kind:literal, $k:literal, $xs:expr, $ca:expr, $pairs:expr) => {{
        let n = <$P as Fx>::N;
        let es = <$P as Fx>::ES;
        let xs: Vec<u32> = $xs;
        let ca: Vec<u32> = $ca;
        let nx = xs.len() as u64;
        let nc = ca.len() as u64;
        let len: u64 = $len;
        let parts: u64 = if $k == 0 { 1 } else { $k };
        let slots = len * parts; // deviation positions
        let base = fingerprint(n, es, (len * parts) as usize);
        let pairs: bool = $pairs;
        // variants: 0 = base; 1..=slots*nc single deviations; then (optionally) pairs of positions with alphabet members
        let single = slots * nc;
        let npairs = if pairs { slots * (slots - 1) / 2 * nc.min(6) * nc.min(6) } else { 0 };
        let variants = 1 + single + npairs;
        let ca2 = ca.clone();
        let base2 = base.clone();
        let build = move |vidx: u64| -> Vec<u32> {
            let mut c = base2.clone();
            if vidx == 0 {
            } else if vidx <= single {
                let pos = ((vidx - 1) / nc) as usize;
                c[pos] = ca2[((vidx - 1) % nc) as usize];
            } else {
                let mut r = vidx - 1 - single;
                let m = nc.min(6);
                let cb = (r % m) as usize;
                r /= m;
                let cav = (r % m) as usize;
                r /= m;
                // r indexes an unordered pair of positions
                let mut p1 = 0u64;
                let mut rem = r;
                while rem >= slots - 1 - p1 {
                    rem -= slots - 1 - p1;
                    p1 += 1;
                }
                let p2 = p1 + 1 + rem;
                c[p1 as usize] = ca2[cav * (ca2.len() / m as usize).max(1) % ca2.len()];
                c[p2 as usize] = ca2[cb * (ca2.len() / m as usize).max(1) % ca2.len()];
            }
            c
        };
        let name = if $k == 0 { format!("{}/poly{}", <$P as Fx>::NAME, $kind) } else { format!("{}/poly{}[{}]", <$P as Fx>::NAME, $kind, $k) };
        $v.push(CellDef::new(
            "C18",
            name,
            Space::func(nx * variants, format!("{} x values x ({} single-position{} coefficient deviations of a fingerprint vector over a {}-member alphabet)", nx, single, if pairs { format!(" + {} two-position", npairs) } else { String::new() }, nc), move |i| {
                ((i / nx) as u128) << 32 | xs[(i % nx) as usize] as u128
            }),
            move |key| {
                let x = key as u32;
                let c = build((key >> 32) as u64);
                let p = parts as usize;
                let cvec: Vec<Vec<u32>> = (0..len as usize).map(|j| c[j * p..(j + 1) * p].to_vec()).collect();
                let (want, nt) = ref_poly(n, es, $kind, x, &cvec);
                let got = guard(|| poly_call!($mode, $P, $len, $m, $k, x, c));
                Out::cmp(got, want as u128, nt)
            },
        ));
    }};
}

/// cancellation family: unstructured x and coefficients (fixed LCG sequence), the constant term solved so that the
/// last quire stage cancels down to the rounding residual of its other terms: c0 = -RN(stage sum without c0),
/// displaced by -1, 0, 1 encodings. Every bit the accumulation loses in a product becomes visible in the result.
macro_rules! poly_cancel_cell {
    ($v:ident, $P:ty, $len:literal, $m:ident, $kind:literal, $nx:expr, $nv:expr) => {{
        let n = <$P as Fx>::N;
        let es = <$P as Fx>::ES;
        let mask: u32 = if n == 32 { u32::MAX } else { (1u32 << n) - 1 };
        let nx: u64 = $nx;
        let nv: u64 = $nv;
        let len: usize = $len;
        // operands with moderate scale (so that powers and products stay far from saturation) and arbitrary fractions
        let gen = move |seed: u64| -> u32 {
            let mut st = seed.wrapping_mul(0x9E37_79B9_7F4A_7C15) ^ 0xD1B5_4A32_D192_ED03;
            st = st.wrapping_mul(6364136223846793005).wrapping_add(1442695040888963407);
            st ^= st >> 29;
            let r = (st >> 16) as u32;
            let one = 1u32 << (n - 2);
            // |value| in roughly [1/16, 16): top bits 01xx or 00 1x.., fraction arbitrary; sign from bit 0 of the seed hash
            let mag = (one >> 2).wrapping_add(r % (one + (one >> 1))) & (mask >> 1);
            let mag = if mag == 0 { one } else { mag };
            if st & 1 == 1 { mag.wrapping_neg() & mask } else { mag }
        };
        $v.push(CellDef::new(
            "C18",
            format!("{}/poly{}#cancel", <$P as Fx>::NAME, $kind),
            Space::func(nx * nv * 3, format!("{} unstructured x values x {} unstructured coefficient vectors x constant term = -RN(rest of the last stage) displaced by -1, 0, 1", nx, nv), |i| i as u128),
            move |key| {
                let i = key as u64;
                let d = (i % 3) as i32 - 1;
                let r = i / 3;
                let (xi, vi) = (r % nx, r / nx);
                let x = gen(0x1000_0000 + xi);
                let mut c: Vec<u32> = (0..len).map(|j| gen((vi << 8) + j as u64 + ((xi & 3) << 40))).collect();
                c[len - 1] = 0;
                let cvec0: Vec<Vec<u32>> = c.iter().map(|&q| vec![q]).collect();
                let (p0, _) = ref_poly(n, es, $kind, x, &cvec0);
                if p0 == o::nar(n) {
                    return Out::skip();
                }
                c[len - 1] = (p0.wrapping_neg() & mask).wrapping_add(d as u32) & mask;
                if c[len - 1] == o::nar(n) {
                    return Out::skip();
                }
                let cvec: Vec<Vec<u32>> = c.iter().map(|&q| vec![q]).collect();
                let (want, nt) = ref_poly(n, es, $kind, x, &cvec);
                let got = guard(|| poly_call!(s, $P, $len, $m, 0, x, c));
                Out::cmp(got, want as u128, nt)
            },
        ));
    }};
}

/// zero-pattern family: every subset of the coefficient positions set to exactly zero (the rest keep their fingerprint
/// values), for a few x: sparse-polynomial shortcuts, skipped stages and "leading zeros" handling are all inside
macro_rules! poly_zeros_cell {
    ($v:ident, $P:ty, $len:literal, $m:ident, $kind:literal, $xs:expr) => {{
        let n = <$P as Fx>::N;
        let es = <$P as Fx>::ES;
        let xs: Vec<u32> = $xs;
        let nx = xs.len() as u64;
        let len: usize = $len;
        let base = fingerprint(n, es, len);
        $v.push(CellDef::new(
            "C18",
            format!("{}/poly{}#zeros", <$P as Fx>::NAME, $kind),
            Space::func((1u64 << len) * nx, format!("every subset of the {} coefficient positions zeroed x {} x values", len, nx), move |i| ((i / nx) as u128) << 32 | xs[(i % nx) as usize] as u128),
            move |key| {
                let x = key as u32;
                let mask = (key >> 32) as u64;
                let c: Vec<u32> = (0..len).map(|j| if (mask >> j) & 1 == 1 { 0 } else { base[j] }).collect();
                let cvec: Vec<Vec<u32>> = c.iter().map(|&q| vec![q]).collect();
                let (want, nt) = ref_poly(n, es, $kind, x, &cvec);
                let got = guard(|| poly_call!(s, $P, $len, $m, 0, x, c));
                Out::cmp(got, want as u128, nt)
            },
        ));
    }};
}

/// zero-pattern family for the array coefficient forms [P; k]: every subset of the len*k parts zeroed
macro_rules! poly_zeros_cell_a {
    ($v:ident, $P:ty, $len:literal, $m:ident, $kind:literal, $k:literal, $xs:expr) => {{
        let n = <$P as Fx>::N;
        let es = <$P as Fx>::ES;
        let xs: Vec<u32> = $xs;
        let nx = xs.len() as u64;
        let len: usize = $len;
        let parts: usize = $k;
        let base = fingerprint(n, es, len * parts);
        $v.push(CellDef::new(
            "C18",
            format!("{}/poly{}[{}]#zeros", <$P as Fx>::NAME, $kind, $k),
            Space::func((1u64 << (len * parts)) * nx, format!("every subset of the {} coefficient parts zeroed x {} x values", len * parts, nx), move |i| ((i / nx) as u128) << 32 | xs[(i % nx) as usize] as u128),
            move |key| {
                let x = key as u32;
                let mask = (key >> 32) as u64;
                let c: Vec<u32> = (0..len * parts).map(|j| if (mask >> j) & 1 == 1 { 0 } else { base[j] }).collect();
                let cvec: Vec<Vec<u32>> = (0..len).map(|j| c[j * parts..(j + 1) * parts].to_vec()).collect();
                let (want, nt) = ref_poly(n, es, $kind, x, &cvec);
                let got = guard(|| poly_call!(a, $P, $len, $m, $k, x, c));
                Out::cmp(got, want as u128, nt)
            },
        ));
    }};
}

macro_rules! array_zeros {
    ($v:ident, $P:ty, $xs:expr) => {
        poly_zeros_cell_a!($v, $P, 2, poly1, "1", 2, $xs);
        poly_zeros_cell_a!($v, $P, 3, poly2, "2", 2, $xs);
        poly_zeros_cell_a!($v, $P, 4, poly3, "3", 2, $xs);
        poly_zeros_cell_a!($v, $P, 5, poly4, "4", 2, $xs);
        poly_zeros_cell_a!($v, $P, 4, poly3a, "3a", 2, $xs);
        poly_zeros_cell_a!($v, $P, 5, poly4a, "4a", 2, $xs);
        poly_zeros_cell_a!($v, $P, 6, poly5, "5", 2, $xs);
        poly_zeros_cell_a!($v, $P, 7, poly6, "6", 2, $xs);
        poly_zeros_cell_a!($v, $P, 8, poly7, "7", 2, $xs);
        poly_zeros_cell_a!($v, $P, 9, poly8, "8", 2, $xs);
        poly_zeros_cell_a!($v, $P, 2, poly1, "1", 4, $xs);
        poly_zeros_cell_a!($v, $P, 3, poly2, "2", 4, $xs);
        poly_zeros_cell_a!($v, $P, 4, poly3, "3", 4, $xs);
        poly_zeros_cell_a!($v, $P, 5, poly4, "4", 3, $xs);
        poly_zeros_cell_a!($v, $P, 6, poly5, "5", 3, $xs);
    };
}

/// array-form cancellation with parts at every scale gap: poly1 with [P; 4] coefficients, c0 = [p1, p2, 0, 0] where p2 lies
/// g binades from p1 (every g), c1 = the exact value of -(x*p1 + x*p2) peeled into four posits (each the remaining sum
/// rounded), so that the result is the tiny remainder and every bit the accumulation of the parts loses is visible
macro_rules! poly_gaps_cell {
    ($v:ident, $P:ty) => {{
        let n = <$P as Fx>::N;
        let es = <$P as Fx>::ES;
        let lim = (n as i32 - 2) * (1 << es) - 1;
        let m: u32 = if n == 32 { u32::MAX } else { (1u32 << n) - 1 };
        let one = 1u32 << (n - 2);
        let xs: Vec<u32> = vec![one | 1, one + (one >> 1) + 1, ((one << 1) - 1).wrapping_neg() & m];
        let anchors: Vec<i32> = vec![-lim / 3, 0, lim / 3, lim / 2];
        let gaps: Vec<i32> = (-(2 * lim)..=(2 * lim)).collect();
        let (na, ng, nx) = (anchors.len() as u64, gaps.len() as u64, xs.len() as u64);
        $v.push(CellDef::new(
            "C18",
            format!("{}/poly1[4]#gaps", <$P as Fx>::NAME),
            Space::func(na * ng * nx * 3 * 6 * 3, format!("{} anchors x {} gaps x {} x values x 3 fraction shapes x 6 part orders x third part {{none, 26, 40 binades above}}; c1 = -(x*c0) peeled into four posits", na, ng, nx), |i| i as u128),
            move |key| {
                let mut r = key as u64;
                let third = r % 3;
                r /= 3;
                let perm = [[0usize, 1, 2], [0, 2, 1], [1, 0, 2], [1, 2, 0], [2, 0, 1], [2, 1, 0]][(r % 6) as usize];
                r /= 6;
                let shape = r % 3;
                r /= 3;
                let x = xs[(r % nx) as usize];
                r /= nx;
                let g = gaps[(r % ng) as usize];
                let a = anchors[(r / ng) as usize];
                let mk = |scale: i32| -> Option<u32> {
                    if scale.abs() > lim { return None; }
                    vpcore::alpha::build(n, es, scale, |nf| { let full = if nf == 0 { 0 } else { ((1u64 << nf) - 1) as u32 }; match shape { 0 => 0, 1 => 1 & full, _ => full } })
                };
                let (Some(p1), Some(p2)) = (mk(a), mk(a - g)) else { return Out::skip() };
                let p3 = match third { 0 => 0, 1 => mk((a + 26).min(lim)).unwrap_or(0), _ => mk((a + 40).min(lim)).unwrap_or(0) };
                let base = [p1, p2, p3];
                let c0 = [base[perm[0]], base[perm[1]], base[perm[2]], 0];
                // exact x*p1 + x*p2 + x*p3, peeled into four posits
                let (Some(w1), Some(w2), Some(w3)) = (prod(n, es, x, p1), prod(n, es, x, p2), prod(n, es, x, p3)) else { return Out::skip() };
                let mut rest = w1.add(w2).add(w3);
                let mut c1 = [0u32; 4];
                for t in 0..4 {
                    if rest.is_zero() { break; }
                    let (q, _) = o::round_ex(n, es, rest.to_ex(240));
                    c1[t] = q.wrapping_neg() & m;
                    match prod(n, es, q, one) { Some(w) => rest = rest.sub(w), None => break }
                }
                let c: Vec<u32> = c0.iter().chain(c1.iter()).copied().collect();
                let cvec: Vec<Vec<u32>> = vec![c0.to_vec(), c1.to_vec()];
                let (want, nt) = ref_poly(n, es, "1", x, &cvec);
                let got = guard(|| poly_call!(a, $P, 2, poly1, 4, x, c));
                Out::cmp(got, want as u128, nt)
            },
        ));
    }};
}

macro_rules! all_degrees_zeros {
    ($v:ident, $P:ty, $xs:expr) => {
        poly_zeros_cell!($v, $P, 2, poly1, "1", $xs);
        poly_zeros_cell!($v, $P, 3, poly2, "2", $xs);
        poly_zeros_cell!($v, $P, 4, poly3, "3", $xs);
        poly_zeros_cell!($v, $P, 5, poly4, "4", $xs);
        poly_zeros_cell!($v, $P, 4, poly3a, "3a", $xs);
        poly_zeros_cell!($v, $P, 5, poly4a, "4a", $xs);
        poly_zeros_cell!($v, $P, 6, poly5, "5", $xs);
        poly_zeros_cell!($v, $P, 7, poly6, "6", $xs);
        poly_zeros_cell!($v, $P, 8, poly7, "7", $xs);
        poly_zeros_cell!($v, $P, 9, poly8, "8", $xs);
        poly_zeros_cell!($v, $P, 10, poly9, "9", $xs);
        poly_zeros_cell!($v, $P, 11, poly10, "10", $xs);
        poly_zeros_cell!($v, $P, 12, poly11, "11", $xs);
        poly_zeros_cell!($v, $P, 13, poly12, "12", $xs);
        poly_zeros_cell!($v, $P, 14, poly13, "13", $xs);
        poly_zeros_cell!($v, $P, 15, poly14, "14", $xs);
        poly_zeros_cell!($v, $P, 16, poly15, "15", $xs);
        poly_zeros_cell!($v, $P, 17, poly16, "16", $xs);
        poly_zeros_cell!($v, $P, 18, poly17, "17", $xs);
        poly_zeros_cell!($v, $P, 19, poly18, "18", $xs);
    };
}

macro_rules! all_degrees_cancel {
    ($v:ident, $P:ty, $nx:expr, $nv:expr) => {
        poly_cancel_cell!($v, $P, 2, poly1, "1", $nx, $nv);
        poly_cancel_cell!($v, $P, 3, poly2, "2", $nx, $nv);
        poly_cancel_cell!($v, $P, 4, poly3, "3", $nx, $nv);
        poly_cancel_cell!($v, $P, 5, poly4, "4", $nx, $nv);
        poly_cancel_cell!($v, $P, 4, poly3a, "3a", $nx, $nv);
        poly_cancel_cell!($v, $P, 5, poly4a, "4a", $nx, $nv);
        poly_cancel_cell!($v, $P, 6, poly5, "5", $nx, $nv);
        poly_cancel_cell!($v, $P, 7, poly6, "6", $nx, $nv);
        poly_cancel_cell!($v, $P, 8, poly7, "7", $nx, $nv);
        poly_cancel_cell!($v, $P, 9, poly8, "8", $nx, $nv);
        poly_cancel_cell!($v, $P, 10, poly9, "9", $nx, $nv);
        poly_cancel_cell!($v, $P, 11, poly10, "10", $nx, $nv);
        poly_cancel_cell!($v, $P, 12, poly11, "11", $nx, $nv);
        poly_cancel_cell!($v, $P, 13, poly12, "12", $nx, $nv);
        poly_cancel_cell!($v, $P, 14, poly13, "13", $nx, $nv);
        poly_cancel_cell!($v, $P, 15, poly14, "14", $nx, $nv);
        poly_cancel_cell!($v, $P, 16, poly15, "15", $nx, $nv);
        poly_cancel_cell!($v, $P, 17, poly16, "16", $nx, $nv);
        poly_cancel_cell!($v, $P, 18, poly17, "17", $nx, $nv);
        poly_cancel_cell!($v, $P, 19, poly18, "18", $nx, $nv);
    };
}

macro_rules! poly_call {
    (s, $P:ty, $len:literal, $m:ident, $k:literal, $x:expr, $c:expr) => {{
        let mut arr = [<$P>::ZERO; $len];
        for j in 0..$len {
            arr[j] = <$P as Fx>::fb($c[j]);
        }
        <$P as Fx>::fb($x).$m(&arr).tb() as u128
    }};
    (a, $P:ty, $len:literal, $m:ident, $k:literal, $x:expr, $c:expr) => {{
        let mut arr = [[<$P>::ZERO; $k]; $len];
        for j in 0..$len {
            for t in 0..$k {
                arr[j][t] = <$P as Fx>::fb($c[j * $k + t]);
            }
        }
        <$P as Fx>::fb($x).$m(&arr).tb() as u128
    }};
}

macro_rules! all_degrees {
    ($v:ident, $P:ty, $k:literal, $xs:expr, $ca:expr, $pairs:expr) => {
        poly_cell!($v, s, $P, 2, poly1, "1", $k, $xs, $ca, $pairs);
        poly_cell!($v, s, $P, 3, poly2, "2", $k, $xs, $ca, $pairs);
        poly_cell!($v, s, $P, 4, poly3, "3", $k, $xs, $ca, $pairs);
        poly_cell!($v, s, $P, 5, poly4, "4", $k, $xs, $ca, $pairs);
        poly_cell!($v, s, $P, 4, poly3a, "3a", $k, $xs, $ca, $pairs);
        poly_cell!($v, s, $P, 5, poly4a, "4a", $k, $xs, $ca, $pairs);
        poly_cell!($v, s, $P, 6, poly5, "5", $k, $xs, $ca, $pairs);
        poly_cell!($v, s, $P, 7, poly6, "6", $k, $xs, $ca, $pairs);
        poly_cell!($v, s, $P, 8, poly7, "7", $k, $xs, $ca, $pairs);
        poly_cell!($v, s, $P, 9, poly8, "8", $k, $xs, $ca, $pairs);
        poly_cell!($v, s, $P, 10, poly9, "9", $k, $xs, $ca, $pairs);
        poly_cell!($v, s, $P, 11, poly10, "10", $k, $xs, $ca, $pairs);
        poly_cell!($v, s, $P, 12, poly11, "11", $k, $xs, $ca, $pairs);
        poly_cell!($v, s, $P, 13, poly12, "12", $k, $xs, $ca, $pairs);
        poly_cell!($v, s, $P, 14, poly13, "13", $k, $xs, $ca, $pairs);
        poly_cell!($v, s, $P, 15, poly14, "14", $k, $xs, $ca, $pairs);
        poly_cell!($v, s, $P, 16, poly15, "15", $k, $xs, $ca, $pairs);
        poly_cell!($v, s, $P, 17, poly16, "16", $k, $xs, $ca, $pairs);
        poly_cell!($v, s, $P, 18, poly17, "17", $k, $xs, $ca, $pairs);
        poly_cell!($v, s, $P, 19, poly18, "18", $k, $xs, $ca, $pairs);
    };
}

macro_rules! array_small {
    ($v:ident, $P:ty, $k:literal, $xs:expr, $ca:expr) => {
        poly_cell!($v, a, $P, 2, poly1, "1", $k, $xs, $ca, false);
        poly_cell!($v, a, $P, 3, poly2, "2", $k, $xs, $ca, false);
        poly_cell!($v, a, $P, 4, poly3, "3", $k, $xs, $ca, false);
        poly_cell!($v, a, $P, 5, poly4, "4", $k, $xs, $ca, false);
        poly_cell!($v, a, $P, 4, poly3a, "3a", $k, $xs, $ca, false);
        poly_cell!($v, a, $P, 7, poly6, "6", $k, $xs, $ca, false);
        poly_cell!($v, a, $P, 10, poly9, "9", $k, $xs, $ca, false);
        // the remaining degrees
        poly_cell!($v, a, $P, 5, poly4a, "4a", $k, $xs, $ca, false);
        poly_cell!($v, a, $P, 6, poly5, "5", $k, $xs, $ca, false);
        poly_cell!($v, a, $P, 8, poly7, "7", $k, $xs, $ca, false);
        poly_cell!($v, a, $P, 9, poly8, "8", $k, $xs, $ca, false);
        poly_cell!($v, a, $P, 11, poly10, "10", $k, $xs, $ca, false);
        poly_cell!($v, a, $P, 12, poly11, "11", $k, $xs, $ca, false);
        poly_cell!($v, a, $P, 13, poly12, "12", $k, $xs, $ca, false);
        poly_cell!($v, a, $P, 14, poly13, "13", $k, $xs, $ca, false);
        poly_cell!($v, a, $P, 15, poly14, "14", $k, $xs, $ca, false);
        poly_cell!($v, a, $P, 16, poly15, "15", $k, $xs, $ca, false);
        poly_cell!($v, a, $P, 17, poly16, "16", $k, $xs, $ca, false);
        poly_cell!($v, a, $P, 18, poly17, "17", $k, $xs, $ca, false);
        poly_cell!($v, a, $P, 19, poly18, "18", $k, $xs, $ca, false);
    };
}

pub fn cells(thorough: bool) -> Vec<CellDef> {
    let mut v: Vec<CellDef> = vec![];
    // x spaces
    let x8: Vec<u32> = (0..256).collect();
    let a16 = alphabet(16, 1, false);
    let x16: Vec<u32> = if thorough { alphabet(16, 1, true) } else { a16.clone() };
    let a32 = alphabet(32, 2, false);
    let x32: Vec<u32> = if thorough { a32.clone() } else { thin(&a32, 3) };
    let (c8, c16, c32) = (coef_alphabet(8, 0, thorough), coef_alphabet(16, 1, thorough), coef_alphabet(32, 2, thorough));
    all_degrees!(v, P8E0, 0, x8.clone(), c8.clone(), thorough);
    all_degrees!(v, P16E1, 0, x16.clone(), c16.clone(), thorough);
    all_degrees!(v, P32E2, 0, x32.clone(), c32.clone(), thorough);
    let (cx, cv): (u64, u64) = if thorough { (512, 512) } else { (128, 96) };
    all_degrees_cancel!(v, P8E0, cx, cv);
    all_degrees_cancel!(v, P16E1, cx, cv);
    all_degrees_cancel!(v, P32E2, cx, cv);
    {
        // x values for the zero-pattern family: 2, -1.5, a value below one, an unstructured one (thorough: a few more)
        let xz = |n: u32| -> Vec<u32> {
            let one = 1u32 << (n - 2);
            let m = if n == 32 { u32::MAX } else { (1u32 << n) - 1 };
            let mut v = vec![one + (one >> 1), (one + (one >> 2)).wrapping_neg() & m, one - (one >> 3) - 1];
            if thorough {
                v.extend([one, one + 1, (one >> 1) + 3, (one + (one >> 1) + (one >> 5) + 5).wrapping_neg() & m]);
            }
            v
        };
        all_degrees_zeros!(v, P8E0, xz(8));
        all_degrees_zeros!(v, P16E1, xz(16));
        all_degrees_zeros!(v, P32E2, xz(32));
        poly_gaps_cell!(v, P8E0);
        poly_gaps_cell!(v, P16E1);
        poly_gaps_cell!(v, P32E2);
        array_zeros!(v, P8E0, xz(8));
        array_zeros!(v, P16E1, xz(16));
        array_zeros!(v, P32E2, xz(32));
    }
    // array coefficient types [P; 1..4]
    array_small!(v, P8E0, 1, x8.clone(), c8.clone());
    array_small!(v, P8E0, 2, x8.clone(), c8.clone());
    array_small!(v, P8E0, 3, x8.clone(), c8.clone());
    array_small!(v, P8E0, 4, x8.clone(), c8.clone());
    let x16s = thin(&x16, 2);
    array_small!(v, P16E1, 1, x16s.clone(), c16.clone());
    array_small!(v, P16E1, 2, x16s.clone(), c16.clone());
    array_small!(v, P16E1, 3, x16s.clone(), c16.clone());
    array_small!(v, P16E1, 4, x16s.clone(), c16.clone());
    let x32s = thin(&x32, 2);
    array_small!(v, P32E2, 1, x32s.clone(), c32.clone());
    array_small!(v, P32E2, 2, x32s.clone(), c32.clone());
    array_small!(v, P32E2, 3, x32s.clone(), c32.clone());
    array_small!(v, P32E2, 4, x32s.clone(), c32.clone());
    v
}

//! Transition-layer cells for C04 / C12 (product enumerator over seed states x operations).
use crate::qx::*;
use vp_oracle as o;
use vp_oracle::W512;
use vpchecks::fx::Fx;
use vpcore::alpha::*;
use vpcore::{guard, CellDef, Out, Space};

pub fn thin(v: &[u32], step: usize) -> Vec<u32> {
    let mut r: Vec<u32> = v.iter().copied().step_by(step).collect();
    if let Some(l) = v.last() {
        r.push(*l);
    }
    r.sort();
    r.dedup();
    r
}

/// state alphabet S_Q: 0, +-2^j and neighbours for every bit j, limb-boundary straddles, near the range ends
pub fn seeds<Q: Qx>() -> Vec<W512> {
    let w = Q::W;
    let one = W512([1, 0, 0, 0, 0, 0, 0, 0]);
    let mut v = vec![W512::ZERO, one, one.neg()];
    for j in 0..(w - 1) {
        let p = W512::from_shifted(1, j).unwrap();
        v.push(p);
        v.push(p.neg());
        v.push(p.sub(one)); // ones below bit j: a carry chain of length j
        v.push(p.neg().add(one));
        if j >= 2 {
            let h = W512::from_shifted(1, j / 2).unwrap();
            v.push(p.add(h));
            v.push(p.sub(h).neg());
        }
        if j + 1 < w - 1 && j % 64 == 63 {
            // straddle a 64-bit limb boundary: ...0001|1111...
            let q = W512::from_shifted(3, j).unwrap();
            v.push(q);
            v.push(q.neg());
        }
    }
    // near +-2^(w-1)
    let top = W512::from_shifted(1, w - 2).unwrap();
    let max = top.add(top.sub(one)); // 2^(w-1)-1
    v.push(max);
    v.push(max.neg());
    v.push(max.sub(one));
    v.retain(|x| decode_state::<Q>(x) != M::Nar);
    v.sort_by_key(|x| x.to_be());
    v.dedup();
    v
}

/// observation-only states: the seed states plus "tie + one far bit" patterns: a leading bit, a guard bit d1
/// places below it and a lone sticky bit d2 places below the leading bit (next to the guard, around the
/// 64-bit window edge, across limb boundaries, at the very bottom), both signs, odd and even kept fractions
pub fn seeds_obs<Q: Qx>() -> Vec<W512> {
    let w = Q::W;
    let mut v = seeds::<Q>();
    let maxd1 = <Q::P as Fx>::N; // guard positions up to the posit width below the leading bit
    for j in 3..(w - 1) {
        let p = W512::from_shifted(1, j).unwrap();
        for d1 in 1..=maxd1.min(j) {
            let g = W512::from_shifted(1, j - d1).unwrap();
            let base = p.add(g);
            v.push(base);
            v.push(base.neg());
            for d2 in [d1 + 1, d1 + 2, 33, 34, 62, 63, 64, 65, 66, 96, 127, 128, 129, 192, j] {
                if d2 > d1 && d2 <= j {
                    let t = W512::from_shifted(1, j - d2).unwrap();
                    v.push(base.add(t));
                    v.push(base.add(t).neg());
                    if d1 >= 2 {
                        let odd = W512::from_shifted(1, j - d1 + 1).unwrap();
                        v.push(base.add(odd).add(t));
                        v.push(base.add(odd));
                    }
                    // two far bits at the same offset of different 64-bit words (and one word + one bit apart): a
                    // sticky computation that folds the lower words with anything but OR loses exactly these
                    for gap in [64u32, 128, 192, 65] {
                        if d2 + gap <= j {
                            let t2 = W512::from_shifted(1, j - d2 - gap).unwrap();
                            v.push(base.add(t).add(t2));
                            v.push(base.add(t).add(t2).neg());
                        }
                    }
                }
            }
        }
    }
    v.retain(|x| decode_state::<Q>(x) != M::Nar);
    v.sort_by_key(|x| x.to_be());
    v.dedup();
    v
}

/// full observation of a quire: hash of the bit image, to_posit, is_zero, is_nar
pub fn observe<Q: Qx>(q: &Q) -> u128 {
    let w = q.to_w();
    (hash_w(&w) as u128) | (q.to_posit().tb() as u128) << 64 | (q.is_zero() as u128) << 96 | (q.is_nar() as u128) << 97
}

pub fn expect<Q: Qx>(s: M) -> u128 {
    let w = image::<Q>(s);
    let (p, _) = round_state::<Q>(s);
    let z = matches!(s, M::Val(v) if v.is_zero());
    let n = matches!(s, M::Nar);
    (hash_w(&w) as u128) | (p as u128) << 64 | (z as u128) << 96 | (n as u128) << 97
}

fn nontrivial<Q: Qx>(before: M, after: M) -> bool {
    // carry/borrow across a 64-bit limb, sign change, cancellation to zero, NaR, or a to_posit that rounds
    match (before, after) {
        (M::Val(a), M::Val(b)) => {
            let hi_changed = (1..8).any(|i| a.0[i] != b.0[i]);
            hi_changed || a.is_neg() != b.is_neg() || b.is_zero() || round_state::<Q>(after).1
        }
        _ => true,
    }
}

pub fn p_of<Q: Qx>(b: u32) -> Q::P {
    <Q::P as Fx>::fb(b)
}

/// C04 layer 1a: from the cleared quire, one product / one posit, both signs
pub fn from_zero<Q: Qx>(thorough: bool) -> Vec<CellDef> {
    let n = <Q::P as Fx>::N;
    let es = <Q::P as Fx>::ES;
    let pair_space = || -> Space {
        match n {
            8 => Space::all2(8),
            16 => {
                if thorough {
                    Space::all2(16)
                } else {
                    let a = alphabet(16, 1, false);
                    let all: Vec<u32> = (0..65536).collect();
                    Space::prod2(a, all, "A(16,1,coarse) x ALL(16)")
                }
            }
            _ => {
                let a = alphabet(32, 2, thorough);
                Space::prod2(a.clone(), a, if thorough { "A(32,2,rich)^2" } else { "A(32,2,coarse)^2" })
            }
        }
    };
    let unary_space = || -> Space {
        match n {
            8 => Space::all(8),
            16 => Space::all(16),
            _ => {
                if thorough {
                    Space::all(32)
                } else {
                    let mut l = alphabet(32, 2, true);
                    l.extend((0..lattice_len(32, 14)).map(|i| lattice_key(32, 14, i)));
                    l.extend(cut_tail_alphabet(32, 2, 4));
                    l.sort();
                    l.dedup();
                    Space::list32(l, "A(32,2,rich) + lattice(top 18 bits x low menu) + every scale x cut position x all 4-bit tails")
                }
            }
        }
    };
    let _ = es;
    let mut v = vec![];
    for plus in [true, false] {
        let nm = if plus { "add_product" } else { "sub_product" };
        v.push(CellDef::new("C04", format!("{}/{}(from zero)", Q::NAME, nm), pair_space(), move |k| {
            let (a, b) = vpcore::k2(k);
            let after = m_add::<Q>(M::Val(W512::ZERO), prod::<Q>(a, b), plus);
            let got = guard(|| {
                let mut q = Q::init();
                if plus {
                    q.add_prod(p_of::<Q>(a), p_of::<Q>(b))
                } else {
                    q.sub_prod(p_of::<Q>(a), p_of::<Q>(b))
                }
                observe(&q)
            });
            Out::cmp(got, expect::<Q>(after), nontrivial::<Q>(M::Val(W512::ZERO), after)).ops(5)
        }));
        let nm = if plus { "add_posit" } else { "sub_posit" };
        v.push(CellDef::new("C04", format!("{}/{}(from zero)", Q::NAME, nm), unary_space(), move |k| {
            let a = k as u32;
            let after = m_add::<Q>(M::Val(W512::ZERO), single::<Q>(a), plus);
            let got = guard(|| {
                let mut q = Q::init();
                if plus {
                    q.add_p(p_of::<Q>(a))
                } else {
                    q.sub_p(p_of::<Q>(a))
                }
                observe(&q)
            });
            Out::cmp(got, expect::<Q>(after), nontrivial::<Q>(M::Val(W512::ZERO), after)).ops(5)
        }));
    }
    // C12: Q::from(p).to_posit() == p
    v.push(CellDef::new("C12", format!("{}/from_posit_roundtrip", Q::NAME), unary_space(), move |k| {
        let a = k as u32;
        let got = guard(|| {
            let q = Q::from_posit(p_of::<Q>(a));
            let q2 = Q::from_posit_trait(p_of::<Q>(a));
            (q.to_posit().tb() as u128) | ((q.to_w() != q2.to_w()) as u128) << 40 | (hash_w(&q.to_w()) as u128) << 64
        });
        let s = m_add::<Q>(M::Val(W512::ZERO), single::<Q>(a), true);
        Out::cmp(got, (a as u128) | (hash_w(&image::<Q>(s)) as u128) << 64, true).ops(3)
    }));
    v
}

/// C04 layer 1b / C12: from every seed state, one operation; plus neg / clear / from_bits / split on every seed
pub fn from_seeds<Q: Qx>(thorough: bool) -> Vec<CellDef> {
    let n = <Q::P as Fx>::N;
    let es = <Q::P as Fx>::ES;
    let sd = seeds::<Q>();
    let ns = sd.len() as u64;
    let al: Vec<u32> = match n {
        8 => (0..256).collect(),
        16 => thin(&alphabet(16, 1, false), if thorough { 1 } else { 3 }),
        _ => thin(&alphabet(32, 2, false), if thorough { 4 } else { 12 }),
    };
    let na = al.len() as u64;
    let mut v = vec![];
    {
        let sd = sd.clone();
        let al2 = al.clone();
        let sd2 = sd.clone();
        v.push(CellDef::new(
            "C04",
            format!("{}/product(from seeds)", Q::NAME),
            Space::func(ns * na * na * 2, format!("{} seed states (0, +-2^j and neighbours, limb straddles, range ends) x alphabet^2 ({} operands) x {{+=,-=}}", ns, na), move |i| {
                let plus = i & 1;
                let j = i >> 1;
                let (si, a, b) = (j / (na * na), al[((j / na) % na) as usize], al[(j % na) as usize]);
                (si as u128) << 68 | (plus as u128) << 64 | (a as u128) << 32 | b as u128
            }),
            move |k| {
                let si = (k >> 68) as usize;
                let plus = (k >> 64) & 1 == 1;
                let (a, b) = vpcore::k2(k);
                let before = M::Val(sd[si]);
                let after = m_add::<Q>(before, prod::<Q>(a, b), plus);                let got = guard(|| {
                    let mut q = Q::from_w(&sd[si]);
                    if plus {
                        q.add_prod(p_of::<Q>(a), p_of::<Q>(b))
                    } else {
                        q.sub_prod(p_of::<Q>(a), p_of::<Q>(b))
                    }
                    observe(&q)
                });
                if after == M::Out {
                    // the property says nothing here; the totality pass (C16) still executes the operation
                    return if vpcore::total_mode() { Out::executed(got) } else { Out::skip() };
                }
                Out::cmp(got, expect::<Q>(after), nontrivial::<Q>(before, after)).ops(5)
            },
        ));
        let ual: Vec<u32> = match n {
            8 => (0..256).collect(),
            16 => alphabet(16, 1, thorough),
            _ => alphabet(32, 2, thorough),
        };
        let nu = ual.len() as u64;
        let _ = al2;
        v.push(CellDef::new(
            "C04",
            format!("{}/posit(from seeds)", Q::NAME),
            Space::func(ns * nu * 2, format!("{} seed states x {} operands x {{+=,-=}}", ns, nu), move |i| {
                let plus = i & 1;
                let j = i >> 1;
                (((j / nu) as u128) << 68) | (plus as u128) << 64 | ual[(j % nu) as usize] as u128
            }),
            move |k| {
                let si = (k >> 68) as usize;
                let plus = (k >> 64) & 1 == 1;
                let a = k as u32;
                let before = M::Val(sd2[si]);
                let after = m_add::<Q>(before, single::<Q>(a), plus);                let got = guard(|| {
                    let mut q = Q::from_w(&sd2[si]);
                    if plus {
                        q.add_p(p_of::<Q>(a))
                    } else {
                        q.sub_p(p_of::<Q>(a))
                    }
                    observe(&q)
                });
                if after == M::Out {
                    // the property says nothing here; the totality pass (C16) still executes the operation
                    return if vpcore::total_mode() { Out::executed(got) } else { Out::skip() };
                }
                Out::cmp(got, expect::<Q>(after), nontrivial::<Q>(before, after)).ops(5)
            },
        ));
    }
    // observation of every seed itself: is_zero / is_nar / to_posit = round(s) (C04), and C12 state operations
    {
        let sd = seeds_obs::<Q>();
        let ns = sd.len() as u64;
        let sd1 = sd.clone();
        v.push(CellDef::new("C04", format!("{}/observe(seeds)", Q::NAME), Space::func(ns, format!("{} states (seed states + tie-plus-far-bit patterns)", ns), |i| i as u128), move |k| {
            let s = M::Val(sd1[k as usize]);
            let got = guard(|| observe(&Q::from_w(&sd1[k as usize])));
            Out::cmp(got, expect::<Q>(s), round_state::<Q>(s).1).ops(4)
        }));
        let sd2 = sd.clone();
        v.push(CellDef::new("C12", format!("{}/neg_clear_bits(seeds)", Q::NAME), Space::func(ns + 1, format!("{} seed states + NaR", ns), |i| i as u128), move |k| {
            let w = if (k as usize) < sd2.len() { sd2[k as usize] } else { nar_image(Q::W) };
            let s = decode_state::<Q>(&w);
            let negw = match s {
                M::Val(v) => v.neg(),
                _ => nar_image(Q::W),
            };
            let got = guard(|| {
                let mut q = Q::from_w(&w);
                let rt = q.to_w() == w && q.t_roundtrip_bits() == w;
                q.neg();
                let n1 = q.to_w();
                let mut q2 = Q::from_w(&w);
                q2.t_neg();
                let n2 = q2.to_w();
                q.clear();
                let c1 = q.to_w().is_zero() && q.is_zero();
                q2.t_clear();
                let c2 = q2.to_w().is_zero();
                (hash_w(&n1) as u128) | ((n1 == n2) as u128) << 64 | (rt as u128) << 65 | (c1 as u128) << 66 | (c2 as u128) << 67
            });
            Out::cmp(got, (hash_w(&negw) as u128) | 0xf << 64, true).ops(8)
        }));
        let sd3 = sd.clone();
        v.push(CellDef::new("C12", format!("{}/split(seeds)", Q::NAME), Space::func(ns, format!("{} seed states", ns), |i| i as u128), move |k| {
            let w = sd3[k as usize];
            // p1 = round(s), p2 = round(s - p1), p3 = round(s - p1 - p2), subtractions exact
            let s0 = M::Val(w);
            let (p1, _) = round_state::<Q>(s0);
            let s1 = m_add::<Q>(s0, single::<Q>(p1), false);
            let (p2, _) = round_state::<Q>(s1);
            let s2 = m_add::<Q>(s1, single::<Q>(p2), false);
            let (p3, _) = round_state::<Q>(s2);
            if s1 == M::Out || s2 == M::Out {
                return Out::skip();
            }
            let got = guard(|| {
                let (a1, a2) = Q::from_w(&w).into_two();
                let (b1, b2, b3) = Q::from_w(&w).into_three();
                (a1.tb() as u128) | (a2.tb() as u128) << 32 | (b3.tb() as u128) << 64 | ((a1.tb() == b1.tb() && a2.tb() == b2.tb()) as u128) << 96
            });
            let _ = (n, es);
            Out::cmp(got, (p1 as u128) | (p2 as u128) << 32 | (p3 as u128) << 64 | 1 << 96, true).ops(2)
        }));
    }
    // NaR is absorbing until clear: from the NaR state every operation leaves NaR
    {
        let ual: Vec<u32> = match n {
            8 => (0..256).collect(),
            16 => alphabet(16, 1, false),
            _ => alphabet(32, 2, false),
        };
        let nu = ual.len() as u64;
        v.push(CellDef::new("C04", format!("{}/nar_absorbing", Q::NAME), Space::func(nu * nu, "NaR state x alphabet^2 x every spelling", move |i| (ual[(i / nu) as usize] as u128) << 32 | ual[(i % nu) as usize] as u128), move |k| {
            let (a, b) = vpcore::k2(k);
            let (pa, pb) = (p_of::<Q>(a), p_of::<Q>(b));
            let nar = nar_image(Q::W);
            let got = guard(|| {
                let mut ok = true;
                let mut chk = |f: &dyn Fn(&mut Q)| {
                    let mut q = Q::from_w(&nar);
                    f(&mut q);
                    ok &= q.is_nar() && q.to_w() == nar && !q.is_zero() && q.to_posit().tb() == o::nar(<Q::P as Fx>::N);
                };
                chk(&|q| q.add_prod(pa, pb));
                chk(&|q| q.sub_prod(pa, pb));
                chk(&|q| q.add_p(pa));
                chk(&|q| q.sub_p(pb));
                chk(&|q| q.add_t12(pa, pb, pa));
                chk(&|q| q.add_t22(pa, pb, pb, pa));
                chk(&|q| q.add_arr(pa, &[pb, pa]));
                chk(&|q| q.m_add_product(pa, pb));
                chk(&|q| q.t_sub_product(pa, pb));
                // and clear() leaves it
                let mut q = Q::from_w(&nar);
                q.clear();
                ok &= q.is_zero() && !q.is_nar();
                ok as u128
            });
            Out::cmp(got, 1, true).ops(10)
        }));
    }
    v
}

/// C12 on states reached by short histories with rounding-relevant content: s = a*b + c
pub fn state_ops_after<Q: Qx>(thorough: bool) -> Vec<CellDef> {
    let n = <Q::P as Fx>::N;
    let al: Vec<u32> = match n {
        8 => (0..256).collect(),
        16 => thin(&alphabet(16, 1, false), if thorough { 1 } else { 3 }),
        _ => thin(&alphabet(32, 2, false), if thorough { 4 } else { 12 }),
    };
    let al3 = if n == 8 { thin(&al, if thorough { 1 } else { 4 }) } else { al.clone() };
    vec![CellDef::new(
        "C12",
        format!("{}/state_ops(a*b+c)", Q::NAME),
        Space::prod3(al.clone(), al, al3, "state reached by += (a,b); += c over alphabet^3: neg, clear, from_bits(to_bits), into_two/three_posits"),
        move |k| {
            let (a, b, c) = vpcore::k3(k);
            let s = m_add::<Q>(m_add::<Q>(M::Val(W512::ZERO), prod::<Q>(a, b), true), single::<Q>(c), true);
            let M::Val(w) = s else { return Out::skip() };
            let ok = crate::hist::state_ops_ok::<Q>(&w);
            Out { ok, nt: true, got: ok as u128, want: 1, ops: 8, panicked: false }
        },
    )]
}

/// explicit order independence: three signed product terms applied in all six orders (and one order on a
/// negated-then-negated quire) give the same bit image
pub fn order_independence<Q: Qx>(thorough: bool) -> Vec<CellDef> {
    let n = <Q::P as Fx>::N;
    let es = <Q::P as Fx>::ES;
    let al: Vec<u32> = thin(&alphabet(n, es, false), match n { 8 => 8, 16 => 40, _ => 180 } / if thorough { 2 } else { 1 });
    // terms = operand pairs (x, y) from the thinned alphabet, with a sign
    let na = al.len() as u64;
    let nt = na * na * 2;
    let al2 = al.clone();
    let term = move |i: u64| -> (u32, u32, bool) { (al2[((i / 2) / na) as usize], al2[((i / 2) % na) as usize], i & 1 == 1) };
    let sub: u64 = if thorough { 1 } else { 7 }; // the third term runs over every `sub`-th term in the quick tier
    let n3 = nt / sub + 1;
    vec![CellDef::new(
        "C04",
        format!("{}/order_independence", Q::NAME),
        Space::func(nt * nt * n3, format!("three signed product terms over {} operands (every term x every term x every {}th term): all 6 orders", na, sub), move |i| {
            let c = (i % n3) * sub % nt;
            let b = (i / n3) % nt;
            let a = i / n3 / nt;
            (a as u128) << 80 | (b as u128) << 40 | c as u128
        }),
        move |k| {
            let idx = [(k >> 80) as u64, ((k >> 40) & 0xff_ffff_ffff) as u64, (k & 0xff_ffff_ffff) as u64];
            let t: Vec<(u32, u32, bool)> = idx.iter().map(|&i| term(i)).collect();
            // exact model of the sum
            let mut m = M::Val(W512::ZERO);
            for &(x, y, neg) in &t {
                m = m_add::<Q>(m, prod::<Q>(x, y), !neg);
            }
            if m == M::Out {
                return Out::skip();
            }
            // intermediate sums of every order must stay in range as well
            let orders: [[usize; 3]; 6] = [[0, 1, 2], [0, 2, 1], [1, 0, 2], [1, 2, 0], [2, 0, 1], [2, 1, 0]];
            for o in orders {
                let mut mm = M::Val(W512::ZERO);
                for j in o {
                    let (x, y, neg) = t[j];
                    mm = m_add::<Q>(mm, prod::<Q>(x, y), !neg);
                    if mm == M::Out {
                        return Out::skip();
                    }
                }
            }
            let want = image::<Q>(m);
            let got = guard(|| {
                let mut all = true;
                for o in orders {
                    let mut q = Q::init();
                    for j in o {
                        let (x, y, neg) = t[j];
                        if neg {
                            q.sub_prod(p_of::<Q>(x), p_of::<Q>(y))
                        } else {
                            q.add_prod(p_of::<Q>(x), p_of::<Q>(y))
                        }
                    }
                    all &= q.to_w() == want;
                }
                all
            });
            match got {
                Some(ok) => Out { ok, nt: true, got: ok as u128, want: 1, ops: 18, panicked: false },
                None => Out::cmp(None, 1, true),
            }
        },
    )]
}

/// every tuple / array / method spelling performs the documented sum of products (C04 spellings)
pub fn spellings<Q: Qx>(thorough: bool) -> Vec<CellDef> {
    let n = <Q::P as Fx>::N;
    let al: Vec<u32> = match n {
        8 => thin(&alphabet(8, 0, true), if thorough { 2 } else { 6 }),
        16 => thin(&alphabet(16, 1, false), if thorough { 8 } else { 16 }),
        _ => thin(&alphabet(32, 2, false), if thorough { 36 } else { 72 }),
    };
    let na = al.len() as u64;
    let sd: Vec<W512> = {
        let s = seeds::<Q>();
        let st = (s.len() / 6).max(1);
        let mut v: Vec<W512> = s.iter().copied().step_by(st).collect();
        v.insert(0, W512::ZERO);
        v
    };
    let mut cells = vec![];
    for (si, st) in sd.iter().copied().enumerate() {
        let al = al.clone();
        cells.push(CellDef::new(
        "C04",
        format!("{}/spellings@s{}", Q::NAME, si),
        Space::func(na * na * na * na, format!("state #{} x alphabet^4 ({} operands): method, trait, tuple (a,(b,c)), (a,(b,c,d)), ((a,b),(c,d)) and array spellings, += and -=", si, na), move |i| {
            let d = al[(i % na) as usize];
            let c = al[((i / na) % na) as usize];
            let b = al[((i / na / na) % na) as usize];
            let a = al[((i / na / na / na) % na) as usize];
            (a as u128) << 96 | (b as u128) << 64 | (c as u128) << 32 | d as u128
        }),
        move |k| {
            let (a, b, c, d) = ((k >> 96) as u32, (k >> 64) as u32, (k >> 32) as u32, k as u32);
            let s0 = M::Val(st);
            let (pa, pb, pc, pd) = (p_of::<Q>(a), p_of::<Q>(b), p_of::<Q>(c), p_of::<Q>(d));
            let pr = |x: u32, y: u32| prod::<Q>(x, y);
            // expected sums
            let sum = |terms: &[Option<W512>], plus: bool| -> M {
                let mut s = s0;
                for t in terms {
                    s = m_add::<Q>(s, *t, plus);
                }
                s
            };
            let mut ok = true;
            let mut any_out = false;
            let mut digest = 0u64;
            let res = guard(|| {
                let mut run = |f: &dyn Fn(&mut Q), want: M| {
                    if want == M::Out {
                        any_out = true;
                        return;
                    }
                    let mut q = Q::from_w(&st);
                    f(&mut q);
                    let g = observe(&q);
                    digest = digest.rotate_left(5) ^ (g as u64) ^ ((g >> 64) as u64);
                    ok &= g == expect::<Q>(want);
                };
                for plus in [true, false] {
                    let w1 = sum(&[pr(a, b)], plus);
                    if plus {
                        run(&|q| q.m_add_product(pa, pb), w1);
                        run(&|q| q.t_add_product(pa, pb), w1);
                        run(&|q| q.add_arr(pa, &[pb]), w1);
                    } else {
                        run(&|q| q.m_sub_product(pa, pb), w1);
                        run(&|q| q.t_sub_product(pa, pb), w1);
                        run(&|q| q.sub_arr(pa, &[pb]), w1);
                    }
                    let w2 = sum(&[pr(a, b), pr(a, c)], plus);
                    if plus {
                        run(&|q| q.add_t12(pa, pb, pc), w2);
                        run(&|q| q.add_arr(pa, &[pb, pc]), w2);
                    } else {
                        run(&|q| q.sub_t12(pa, pb, pc), w2);
                        run(&|q| q.sub_arr(pa, &[pb, pc]), w2);
                    }
                    let w3 = sum(&[pr(a, b), pr(a, c), pr(a, d)], plus);
                    if plus {
                        run(&|q| q.add_t13(pa, pb, pc, pd), w3);
                        run(&|q| q.add_arr(pa, &[pb, pc, pd]), w3);
                    } else {
                        run(&|q| q.sub_arr(pa, &[pb, pc, pd]), w3);
                    }
                    let w4 = sum(&[pr(a, c), pr(a, d), pr(b, c), pr(b, d)], plus);
                    if plus {
                        run(&|q| q.add_t22(pa, pb, pc, pd), w4);
                    } else {
                        run(&|q| q.sub_t22(pa, pb, pc, pd), w4);
                    }
                    let w5 = sum(&[pr(a, b), pr(a, c), pr(a, d), pr(a, a)], plus);
                    if plus {
                        run(&|q| q.add_arr(pa, &[pb, pc, pd, pa]), w5);
                    } else {
                        run(&|q| q.sub_arr(pa, &[pb, pc, pd, pa]), w5);
                    }
                }
            });
            let _ = any_out;
            match res {
                Some(()) => Out { ok, nt: true, got: digest as u128, want: 0, ops: 19, panicked: false },
                None => Out::cmp(None, 0, true),
            }
        },
        ));
    }
    cells
}

/// Q8E0 only: the quire is 32 bits wide, so its *whole* state space can be enumerated, not just seed states.
/// quick: two lattices (every upper half x 16 lower halves, 16 upper halves x every lower half);
/// thorough: all 2^32 bit images. Per state: is_zero / is_nar / to_posit / bit image (C04) and
/// neg / clear / from_bits(to_bits) / into_two / into_three (C12); plus one step from every lattice state
/// with a thinned product alphabet (C04).
pub fn q8_state_space<Q: Qx>(thorough: bool) -> Vec<CellDef> {
    assert_eq!(Q::W, 32);
    const MENU: [u32; 16] = [0, 1, 2, 3, 0x7fff, 0x8000, 0x8001, 0xfffe, 0xffff, 0x5555, 0xaaaa, 0x00ff, 0xff00, 0x0100, 0x4000, 0xc000];
    let lat = |i: u64| -> u32 {
        let (half, r) = (i >> 20, i & 0xf_ffff);
        let (all, m) = ((r >> 4) as u32, MENU[(r & 15) as usize]);
        if half == 0 {
            all << 16 | m
        } else {
            m << 16 | all
        }
    };
    let state_space = move || -> Space {
        if thorough {
            Space::all(32)
        } else {
            Space::func(1 << 21, "Q8E0 state lattice: every upper half x 16 lower halves + 16 upper halves x every lower half (2^21 of the 2^32 bit images)", move |i| lat(i) as u128)
        }
    };
    let st = |k: u128| -> W512 { sext([(k as u32) as u64, 0, 0, 0, 0, 0, 0, 0], 32) };
    let mut v = vec![];
    v.push(CellDef::new("C04", format!("{}/observe(state space)", Q::NAME), state_space(), move |k| {
        let w = st(k);
        let s = decode_state::<Q>(&w);
        let got = guard(|| observe(&Q::from_w(&w)));
        Out::cmp(got, expect::<Q>(s), round_state::<Q>(s).1).ops(4)
    }));
    v.push(CellDef::new("C12", format!("{}/neg_clear_bits_split(state space)", Q::NAME), state_space(), move |k| {
        let w = st(k);
        let s = decode_state::<Q>(&w);
        let negw = match s {
            M::Val(v) => v.neg(),
            _ => nar_image(Q::W),
        };
        let (p1, _) = round_state::<Q>(s);
        let s1 = m_add::<Q>(s, single::<Q>(p1), false);
        let (p2, _) = round_state::<Q>(s1);
        let s2 = m_add::<Q>(s1, single::<Q>(p2), false);
        let (p3, _) = round_state::<Q>(s2);
        let split_defined = !(s1 == M::Out || s2 == M::Out || s == M::Nar);
        let got = guard(|| {
            let mut q = Q::from_w(&w);
            let rt = q.to_w() == w && q.t_roundtrip_bits() == w;
            q.neg();
            let n1 = q.to_w();
            let mut q2 = Q::from_w(&w);
            q2.t_neg();
            let n2 = q2.to_w();
            q.clear();
            let c1 = q.to_w().is_zero() && q.is_zero();
            q2.t_clear();
            let c2 = q2.to_w().is_zero();
            let mut r = (n1.0[0] as u32 as u128) | ((n1 == n2) as u128) << 32 | (rt as u128) << 33 | (c1 as u128) << 34 | (c2 as u128) << 35;
            if split_defined {
                let (a1, a2) = Q::from_w(&w).into_two();
                let (b1, b2, b3) = Q::from_w(&w).into_three();
                r |= (a1.tb() as u128 & 0xff) << 40 | (a2.tb() as u128 & 0xff) << 48 | (b3.tb() as u128 & 0xff) << 56 | ((a1.tb() == b1.tb() && a2.tb() == b2.tb()) as u128) << 64;
            }
            r
        });
        let mut want = (negw.0[0] as u32 as u128) | 0xf << 32;
        if split_defined {
            want |= (p1 as u128) << 40 | (p2 as u128) << 48 | (p3 as u128) << 56 | 1 << 64;
        }
        Out::cmp(got, want, true).ops(10)
    }));
    // one step from every lattice state
    let al: Vec<u32> = thin(&alphabet(8, 0, false), if thorough { 2 } else { 9 });
    let na = al.len() as u64;
    let ns: u64 = 1 << 21;
    v.push(CellDef::new(
        "C04",
        format!("{}/product(state lattice)", Q::NAME),
        Space::func(ns * na * na * 2, format!("2^21 lattice states x alphabet^2 ({} operands) x {{+=,-=}}", na), move |i| {
            let plus = i & 1;
            let j = i >> 1;
            let (si, a, b) = (j / (na * na), al[((j / na) % na) as usize], al[(j % na) as usize]);
            (lat(si) as u128) << 68 | (plus as u128) << 64 | (a as u128) << 32 | b as u128
        }),
        move |k| {
            let w = st(k >> 68);
            let plus = (k >> 64) & 1 == 1;
            let (a, b) = vpcore::k2(k);
            let before = decode_state::<Q>(&w);
            let after = m_add::<Q>(before, prod::<Q>(a, b), plus);            let got = guard(|| {
                let mut q = Q::from_w(&w);
                if plus {
                    q.add_prod(p_of::<Q>(a), p_of::<Q>(b))
                } else {
                    q.sub_prod(p_of::<Q>(a), p_of::<Q>(b))
                }
                observe(&q)
            });
            if after == M::Out {
                // the property says nothing here; the totality pass (C16) still executes the operation
                return if vpcore::total_mode() { Out::executed(got) } else { Out::skip() };
            }
            Out::cmp(got, expect::<Q>(after), nontrivial::<Q>(before, after)).ops(5)
        },
    ));
    v
}

/// window lattice over the quire's state space: every value of a `hb`-bit head placed at every bit position,
/// with the bits below it all zero / all one, both signs. A `to_posit`, `neg` or split defect that needs a
/// particular bit pattern next to the leading bit (at any magnitude) is inside this space.
pub fn window_states<Q: Qx>(thorough: bool) -> Vec<CellDef> {
    let hb: u32 = if thorough { 18 } else { 13 };
    let w = Q::W;
    let npos = (w - 1) as u64;
    let len = npos * (1u64 << hb) * 4;
    let mk = move |i: u64| -> W512 {
        let (sgn, fill) = (i & 1, (i >> 1) & 1);
        let r = i >> 2;
        let head = r & ((1 << hb) - 1);
        let sh = (r >> hb) as u32;
        let head = head & ((1u64 << (w - 1 - sh).min(hb)) - 1); // keep the head below bit w-1
        let mut v = W512::from_shifted(head as u128, sh).unwrap();
        if fill == 1 && sh > 0 {
            v = v.add(W512::from_shifted(1, sh).unwrap().sub(W512([1, 0, 0, 0, 0, 0, 0, 0])));
        }
        // keep inside the range: drop anything at or above bit w-1
        let v = sext({
            let mut l = v.0;
            let top = (w - 1) as usize;
            if w < 512 {
                l[top / 64] &= (1u64 << (top % 64)) - 1;
                for x in l.iter_mut().skip(top / 64 + 1) {
                    *x = 0;
                }
            } else {
                l[7] &= (1u64 << 63) - 1;
            }
            l
        }, w);
        if sgn == 1 {
            v.neg()
        } else {
            v
        }
    };
    let desc = format!("window lattice: {}-bit head (all values) at every one of {} bit positions x low fill {{0s, 1s}} x sign", hb, npos);
    let mut v = state_cells::<Q>("window lattice", len, desc, mk);
    // unstructured multi-limb states: for every bit length L < W-1, `per` values whose L bits come from a fixed LCG
    // sequence (top bit set), both signs
    let per: u64 = if thorough { 8192 } else { 1024 };
    let ulen = (w as u64 - 2) * per * 2;
    let umk = move |i: u64| -> W512 {
        let sgn = i & 1;
        let r = i >> 1;
        let (l, j) = (r / per + 1, r % per); // bit length 1..=w-2
        let mut st: u64 = 0x2545_F491_4F6C_DD1D ^ (l << 32) ^ j.wrapping_mul(0x9E37_79B9_7F4A_7C15);
        let mut limbs = [0u64; 8];
        for x in limbs.iter_mut() {
            st = st.wrapping_mul(6364136223846793005).wrapping_add(1442695040888963407);
            *x = st ^ (st >> 29);
            st = st.wrapping_mul(6364136223846793005).wrapping_add(1442695040888963407);
            *x ^= st << 32;
        }
        // keep exactly l bits
        let top = (l - 1) as usize;
        for (k, x) in limbs.iter_mut().enumerate() {
            if k > top / 64 {
                *x = 0;
            } else if k == top / 64 {
                let keep = top % 64 + 1;
                if keep < 64 {
                    *x &= (1u64 << keep) - 1;
                }
                *x |= 1u64 << (top % 64);
            }
        }
        let v = W512(limbs);
        if sgn == 1 {
            v.neg()
        } else {
            v
        }
    };
    v.extend(state_cells::<Q>("unstructured states", ulen, format!("for every bit length 1..={} x {} fixed pseudo-random fills x sign", w - 2, per), umk.clone()));
    // one step from the unstructured states
    let n = <Q::P as Fx>::N;
    let al: Vec<u32> = match n {
        8 => thin(&alphabet(8, 0, false), 4),
        16 => thin(&alphabet(16, 1, false), if thorough { 6 } else { 24 }),
        _ => thin(&alphabet(32, 2, false), if thorough { 24 } else { 96 }),
    };
    let na = al.len() as u64;
    let per_p: u64 = if thorough { 512 } else { 32 };
    v.push(CellDef::new(
        "C04",
        format!("{}/product(unstructured states)", Q::NAME),
        Space::func((w as u64 - 2) * per_p * 2 * na * na * 2, format!("unstructured states ({} per bit length) x alphabet^2 ({} operands) x {{+=,-=}}", per_p, na), move |i| i as u128),
        move |k| {
            let i = k as u64;
            let plus = i & 1 == 1;
            let j = i >> 1;
            let (si, a, b) = (j / (na * na), al[((j / na) % na) as usize], al[(j % na) as usize]);
            let (sgn, r) = (si & 1, si >> 1);
            let wv = umk((((r / per_p) * per + r % per_p) << 1) | sgn);
            let before = decode_state::<Q>(&wv);
            let after = m_add::<Q>(before, prod::<Q>(a, b), plus);            let got = guard(|| {
                let mut q = Q::from_w(&wv);
                if plus {
                    q.add_prod(p_of::<Q>(a), p_of::<Q>(b))
                } else {
                    q.sub_prod(p_of::<Q>(a), p_of::<Q>(b))
                }
                observe(&q)
            });
            if after == M::Out {
                // the property says nothing here; the totality pass (C16) still executes the operation
                return if vpcore::total_mode() { Out::executed(got) } else { Out::skip() };
            }
            Out::cmp(got, expect::<Q>(after), nontrivial::<Q>(before, after)).ops(5)
        },
    ));
    v
}

fn state_cells<Q: Qx>(tag: &str, len: u64, desc: String, mk: impl Fn(u64) -> W512 + Send + Sync + Clone + 'static) -> Vec<CellDef> {
    let mk2 = mk.clone();
    let mut v = vec![];
    let d1 = desc.clone();
    v.push(CellDef::new("C04", format!("{}/observe({})", Q::NAME, tag), Space::func(len, d1, |i| i as u128), move |k| {
        let wv = mk(k as u64);
        let s = decode_state::<Q>(&wv);
        let got = guard(|| observe(&Q::from_w(&wv)));
        Out::cmp(got, expect::<Q>(s), round_state::<Q>(s).1).ops(4)
    }));
    v.push(CellDef::new("C12", format!("{}/neg_clear_bits_split({})", Q::NAME, tag), Space::func(len, desc, |i| i as u128), move |k| {
        let wv = mk2(k as u64);
        let s = decode_state::<Q>(&wv);
        let negw = match s {
            M::Val(v) => v.neg(),
            _ => nar_image(Q::W),
        };
        let (p1, _) = round_state::<Q>(s);
        let s1 = m_add::<Q>(s, single::<Q>(p1), false);
        let (p2, _) = round_state::<Q>(s1);
        let s2 = m_add::<Q>(s1, single::<Q>(p2), false);
        let (p3, _) = round_state::<Q>(s2);
        let split_defined = !(s1 == M::Out || s2 == M::Out || s == M::Nar);
        let got = guard(|| {
            let mut q = Q::from_w(&wv);
            let rt = q.to_w() == wv && q.t_roundtrip_bits() == wv;
            q.neg();
            let n1 = q.to_w();
            let mut q2 = Q::from_w(&wv);
            q2.t_neg();
            let n2 = q2.to_w();
            q.clear();
            let c1 = q.to_w().is_zero() && q.is_zero();
            q2.t_clear();
            let c2 = q2.to_w().is_zero();
            let mut r = ((hash_w(&n1) as u32) as u128) | ((n1 == n2) as u128) << 32 | (rt as u128) << 33 | (c1 as u128) << 34 | (c2 as u128) << 35;
            if split_defined {
                let (a1, a2) = Q::from_w(&wv).into_two();
                let (b1, b2, b3) = Q::from_w(&wv).into_three();
                let f = |x: u32| -> u128 { (x as u128).wrapping_mul(0x9e37_79b9) & 0xff_ffff };
                r |= f(a1.tb()) << 40 | f(a2.tb()) << 64 | f(b3.tb()) << 88 | ((a1.tb() == b1.tb() && a2.tb() == b2.tb()) as u128) << 36;
            }
            r
        });
        let mut want = ((hash_w(&negw) as u32) as u128) | 0xf << 32;
        if split_defined {
            let f = |x: u32| -> u128 { (x as u128).wrapping_mul(0x9e37_79b9) & 0xff_ffff };
            want |= f(p1) << 40 | f(p2) << 64 | f(p3) << 88 | 1 << 36;
        }
        Out::cmp(got, want, true).ops(10)
    }));
    v
}

/// array spellings with parts at every scale gap: q += (x, [p1, p2, p3(, p4)]) where p2 lies g binades below / above p1
/// for every g, p3 is zero / tiny / large, the parts come in all six orders, x and the parts have full fractions (last bit
/// set), all-ones fractions or are powers of two. An implementation that pre-sums the parts of one coefficient in a
/// narrow window, or aligns them relative to the first part, is exercised at every alignment.
pub fn array_gaps<Q: Qx>(thorough: bool) -> Vec<CellDef> {
    let n = <Q::P as Fx>::N;
    let es = <Q::P as Fx>::ES;
    let lim = (n as i32 - 2) * (1 << es) - 1;
    let m: u32 = if n == 32 { u32::MAX } else { (1u32 << n) - 1 };
    // product scales must stay inside the quire: |scale(x) + scale(p)| <= lim is always fine for these formats
    let anchors: Vec<i32> = if thorough { vec![-lim / 2, -lim / 5, 0, lim / 6, lim / 3, lim / 2] } else { vec![-lim / 3, 0, lim / 3] };
    let gaps: Vec<i32> = (-(2 * lim)..=(2 * lim)).collect();
    let xs: Vec<u32> = {
        let one = 1u32 << (n - 2);
        vec![one | 1, one + (one >> 1), ((one << 1) - 1).wrapping_neg() & m]
    };
    let (na, ng, nx) = (anchors.len() as u64, gaps.len() as u64, xs.len() as u64);
    // shape of the parts' fractions: 0 = power of two, 1 = lone last bit, 2 = all ones
    let mk = move |scale: i32, shape: u64| -> Option<u32> {
        if scale.abs() > lim {
            return None;
        }
        build(n, es, scale, |nf| {
            let full = if nf == 0 { 0 } else { ((1u64 << nf) - 1) as u32 };
            match shape {
                0 => 0,
                1 => 1 & full,
                _ => full,
            }
        })
    };
    const PERM: [[usize; 3]; 6] = [[0, 1, 2], [0, 2, 1], [1, 0, 2], [1, 2, 0], [2, 0, 1], [2, 1, 0]];
    let len = na * ng * nx * 3 * 3 * 6 * 2;
    vec![CellDef::new(
        "C04",
        format!("{}/array_gaps", Q::NAME),
        Space::func(len, format!("{} anchors x {} gaps x {} x values x 3 fraction shapes x 3 third parts x 6 orders x {{[P;3], [P;4] with a cancelling fourth part}}", na, ng, nx), |i| i as u128),
        move |k| {
            let mut r = k as u64;
            let four = r & 1 == 1;
            r >>= 1;
            let perm = PERM[(r % 6) as usize];
            r /= 6;
            let third = r % 3;
            r /= 3;
            let shape = r % 3;
            r /= 3;
            let x = xs[(r % nx) as usize];
            r /= nx;
            let g = gaps[(r % ng) as usize];
            let a = anchors[(r / ng) as usize];
            let (Some(p1), Some(p2)) = (mk(a, shape), mk(a - g, shape)) else { return Out::skip() };
            let p3 = match third {
                0 => 0,
                1 => mk(-lim + 3, shape).unwrap_or(1),
                _ => mk((a + 30).min(lim), shape).unwrap_or(p1).wrapping_neg() & m,
            };
            let base = [p1, p2, p3];
            let parts: Vec<u32> = if four { vec![base[perm[0]], base[perm[1]], base[perm[2]], p1.wrapping_neg() & m] } else { vec![base[perm[0]], base[perm[1]], base[perm[2]]] };
            // model
            let mut s = M::Val(W512::ZERO);
            for &p in &parts {
                s = m_add::<Q>(s, prod::<Q>(x, p), true);
            }
            let px = p_of::<Q>(x);
            let pp: Vec<Q::P> = parts.iter().map(|&p| p_of::<Q>(p)).collect();
            let got = guard(|| {
                let mut q = Q::init();
                q.add_arr(px, &pp);
                let mut seq = Q::init();
                for &p in &pp {
                    seq.add_prod(px, p);
                }
                let mut qs = Q::init();
                qs.sub_arr(px, &pp);
                let mut seqs = Q::init();
                for &p in &pp {
                    seqs.sub_prod(px, p);
                }
                (observe(&q), q.to_w() == seq.to_w() && qs.to_w() == seqs.to_w())
            });
            if s == M::Out {
                return if vpcore::total_mode() { Out::executed(got.map(|g| g.0)) } else { Out::skip() };
            }
            match got {
                Some((g, same)) => Out { ok: same && g == expect::<Q>(s), nt: true, got: g ^ ((!same) as u128) << 127, want: expect::<Q>(s), ops: 4, panicked: false },
                None => Out::cmp(None, 0, true),
            }
        },
    )]
}

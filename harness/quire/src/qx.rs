//! Uniform view of the three quire types (forwarders only) and the integer reference model.
use softposit::{Quire, P16E1, P32E2, P8E0, Q16E1, Q32E2, Q8E0};
use vp_oracle as o;
use vp_oracle::W512;
use vpchecks::fx::Fx;

pub trait Qx: Sized + Send + Sync + 'static {
    type P: Fx;
    const W: u32; // width in bits
    const FRAC: u32; // fraction bits
    const NAME: &'static str;
    fn init() -> Self;
    /// from the sign-extended 512-bit image
    fn from_w(w: &W512) -> Self;
    fn to_w(&self) -> W512;
    fn is_zero(&self) -> bool;
    fn is_nar(&self) -> bool;
    fn to_posit(&self) -> Self::P;
    fn neg(&mut self);
    fn clear(&mut self);
    fn add_prod(&mut self, a: Self::P, b: Self::P);
    fn sub_prod(&mut self, a: Self::P, b: Self::P);
    fn add_p(&mut self, a: Self::P);
    fn sub_p(&mut self, a: Self::P);
    fn m_add_product(&mut self, a: Self::P, b: Self::P);
    fn m_sub_product(&mut self, a: Self::P, b: Self::P);
    fn add_t12(&mut self, a: Self::P, b: Self::P, c: Self::P);
    fn sub_t12(&mut self, a: Self::P, b: Self::P, c: Self::P);
    fn add_t13(&mut self, a: Self::P, b: Self::P, c: Self::P, d: Self::P);
    fn add_t22(&mut self, a: Self::P, b: Self::P, c: Self::P, d: Self::P);
    fn sub_t22(&mut self, a: Self::P, b: Self::P, c: Self::P, d: Self::P);
    fn add_arr(&mut self, a: Self::P, bs: &[Self::P]);
    fn sub_arr(&mut self, a: Self::P, bs: &[Self::P]);
    fn from_posit(p: Self::P) -> Self;
    fn from_posit_trait(p: Self::P) -> Self;
    fn into_two(self) -> (Self::P, Self::P);
    fn into_three(self) -> (Self::P, Self::P, Self::P);
    // Quire<P> trait spellings
    fn t_roundtrip_bits(&self) -> W512;
    fn t_flags(&self) -> (bool, bool, u32);
    fn t_add_product(&mut self, a: Self::P, b: Self::P);
    fn t_sub_product(&mut self, a: Self::P, b: Self::P);
    fn t_neg(&mut self);
    fn t_clear(&mut self);
}

/// sign-extend a `w`-bit two's-complement value held in the low limbs
pub fn sext(mut limbs: [u64; 8], w: u32) -> W512 {
    if w < 512 {
        let top = (w - 1) as usize;
        let neg = (limbs[top / 64] >> (top % 64)) & 1 != 0;
        let l = top / 64;
        let off = top % 64;
        if neg {
            if off < 63 {
                limbs[l] |= !0u64 << (off + 1);
            }
            for x in limbs.iter_mut().skip(l + 1) {
                *x = !0;
            }
        } else {
            if off < 63 {
                limbs[l] &= !(!0u64 << (off + 1));
            }
            for x in limbs.iter_mut().skip(l + 1) {
                *x = 0;
            }
        }
    }
    W512(limbs)
}

macro_rules! common {
    ($Q:ty, $P:ty) => {
        fn init() -> Self { <$Q>::init() }
        fn is_zero(&self) -> bool { <$Q>::is_zero(self) }
        fn is_nar(&self) -> bool { <$Q>::is_nar(self) }
        fn to_posit(&self) -> $P { <$Q>::to_posit(self) }
        fn neg(&mut self) { <$Q>::neg(self) }
        fn clear(&mut self) { <$Q>::clear(self) }
        fn add_prod(&mut self, a: $P, b: $P) { *self += (a, b) }
        fn sub_prod(&mut self, a: $P, b: $P) { *self -= (a, b) }
        fn add_p(&mut self, a: $P) { *self += a }
        fn sub_p(&mut self, a: $P) { *self -= a }
        fn m_add_product(&mut self, a: $P, b: $P) { <$Q>::add_product(self, a, b) }
        fn m_sub_product(&mut self, a: $P, b: $P) { <$Q>::sub_product(self, a, b) }
        fn add_t12(&mut self, a: $P, b: $P, c: $P) { *self += (a, (b, c)) }
        fn sub_t12(&mut self, a: $P, b: $P, c: $P) { *self -= (a, (b, c)) }
        fn add_t13(&mut self, a: $P, b: $P, c: $P, d: $P) { *self += (a, (b, c, d)) }
        fn add_t22(&mut self, a: $P, b: $P, c: $P, d: $P) { *self += ((a, b), (c, d)) }
        fn sub_t22(&mut self, a: $P, b: $P, c: $P, d: $P) { *self -= ((a, b), (c, d)) }
        fn add_arr(&mut self, a: $P, bs: &[$P]) {
            match bs.len() {
                1 => *self += (a, [bs[0]]),
                2 => *self += (a, [bs[0], bs[1]]),
                3 => *self += (a, [bs[0], bs[1], bs[2]]),
                _ => *self += (a, [bs[0], bs[1], bs[2], bs[3]]),
            }
        }
        fn sub_arr(&mut self, a: $P, bs: &[$P]) {
            match bs.len() {
                1 => *self -= (a, [bs[0]]),
                2 => *self -= (a, [bs[0], bs[1]]),
                3 => *self -= (a, [bs[0], bs[1], bs[2]]),
                _ => *self -= (a, [bs[0], bs[1], bs[2], bs[3]]),
            }
        }
        fn from_posit(p: $P) -> Self { <$Q>::from(p) }
        fn from_posit_trait(p: $P) -> Self { <$Q as Quire<$P>>::from_posit(p) }
        fn into_two(self) -> ($P, $P) { <$Q>::into_two_posits(self) }
        fn into_three(self) -> ($P, $P, $P) { <$Q>::into_three_posits(self) }
        fn t_roundtrip_bits(&self) -> W512 {
            let b = <$Q as Quire<$P>>::to_bits(self);
            let q = <$Q as Quire<$P>>::from_bits(b);
            Qx::to_w(&q)
        }
        fn t_flags(&self) -> (bool, bool, u32) {
            (<$Q as Quire<$P>>::is_zero(self), <$Q as Quire<$P>>::is_nar(self), <$Q as Quire<$P>>::to_posit(self).tb())
        }
        fn t_add_product(&mut self, a: $P, b: $P) { <$Q as Quire<$P>>::add_product(self, a, b) }
        fn t_sub_product(&mut self, a: $P, b: $P) { <$Q as Quire<$P>>::sub_product(self, a, b) }
        fn t_neg(&mut self) { <$Q as Quire<$P>>::neg(self) }
        fn t_clear(&mut self) { <$Q as Quire<$P>>::clear(self) }
    };
}

impl Qx for Q8E0 {
    type P = P8E0;
    const W: u32 = 32;
    const FRAC: u32 = 12;
    const NAME: &'static str = "Q8E0";
    fn from_w(w: &W512) -> Self { Q8E0::from_bits(w.0[0] as u32) }
    fn to_w(&self) -> W512 { sext([self.to_bits() as u64, 0, 0, 0, 0, 0, 0, 0], 32) }
    common!(Q8E0, P8E0);
}

impl Qx for Q16E1 {
    type P = P16E1;
    const W: u32 = 128;
    const FRAC: u32 = 56;
    const NAME: &'static str = "Q16E1";
    fn from_w(w: &W512) -> Self { Q16E1::from_bits((w.0[0] as u128) | (w.0[1] as u128) << 64) }
    fn to_w(&self) -> W512 {
        let b = self.to_bits();
        sext([b as u64, (b >> 64) as u64, 0, 0, 0, 0, 0, 0], 128)
    }
    common!(Q16E1, P16E1);
}

impl Qx for Q32E2 {
    type P = P32E2;
    const W: u32 = 512;
    const FRAC: u32 = 240;
    const NAME: &'static str = "Q32E2";
    fn from_w(w: &W512) -> Self { Q32E2::from_bits(w.to_be()) }
    fn to_w(&self) -> W512 { W512::from_be(self.to_bits()) }
    common!(Q32E2, P32E2);
}

// ---------------------------------------------------------------------------------------------
// integer reference model: a quire state is either NaR or an exact integer (W512, sign-extended)
// ---------------------------------------------------------------------------------------------

#[derive(Clone, Copy, PartialEq, Eq, Debug)]
pub enum M {
    Nar,
    Val(W512),
    /// the exact sum left the quire's range: the property says nothing from here on
    Out,
}

pub fn nar_image(w: u32) -> W512 {
    // -2^(w-1), sign-extended
    let mut l = [0u64; 8];
    let top = (w - 1) as usize;
    l[top / 64] = 1u64 << (top % 64);
    sext(l, w)
}

pub fn decode_state<Q: Qx>(w: &W512) -> M {
    if *w == nar_image(Q::W) {
        M::Nar
    } else {
        M::Val(*w)
    }
}

/// does the sign-extended value fit strictly inside (-2^(w-1), 2^(w-1)) ?
fn fits(v: &W512, w: u32) -> bool {
    if w == 512 {
        return *v != nar_image(512);
    }
    // all bits above w-1 must equal bit w-1, and v != -2^(w-1)
    let s = sext(v.0, w);
    s == *v && *v != nar_image(w)
}

pub fn m_add<Q: Qx>(s: M, term: Option<W512>, plus: bool) -> M {
    match (s, term) {
        (M::Out, _) => M::Out,
        (M::Nar, _) | (_, None) => M::Nar,
        (M::Val(a), Some(t)) => {
            let t = if plus { t } else { t.neg() };
            let r = a.add(t);
            if Q::W == 512 {
                // overflow of 512-bit two's complement
                let (sa, st, sr) = (a.is_neg(), t.is_neg(), r.is_neg());
                if sa == st && sr != sa && !t.is_zero() {
                    return M::Out;
                }
            }
            if fits(&r, Q::W) {
                M::Val(r)
            } else {
                M::Out
            }
        }
    }
}

/// exact a*b as a quire integer (None = NaR operand)
pub fn prod<Q: Qx>(a: u32, b: u32) -> Option<W512> {
    let (n, es) = (<Q::P as Fx>::N, <Q::P as Fx>::ES);
    let (Some(x), Some(y)) = (o::decode(n, es, a), o::decode(n, es, b)) else { return None };
    let p = o::mul(x, y);
    if p.is_zero() {
        return Some(W512::ZERO);
    }
    let sh = p.e + Q::FRAC as i32;
    assert!(sh >= 0, "product below the quire lsb cannot happen for these formats");
    let w = W512::from_shifted(p.m, sh as u32).expect("product fits in 512 bits");
    Some(if p.neg { w.neg() } else { w })
}

pub fn single<Q: Qx>(a: u32) -> Option<W512> {
    let one = 1u32 << (<Q::P as Fx>::N - 2);
    prod::<Q>(a, one)
}

/// posit-rule rounding of a quire value
pub fn round_state<Q: Qx>(s: M) -> (u32, bool) {
    let (n, es) = (<Q::P as Fx>::N, <Q::P as Fx>::ES);
    match s {
        M::Nar | M::Out => (o::nar(n), true),
        M::Val(v) => o::round_ex(n, es, v.to_ex(Q::FRAC)),
    }
}

pub fn image<Q: Qx>(s: M) -> W512 {
    match s {
        M::Nar | M::Out => nar_image(Q::W),
        M::Val(v) => v,
    }
}

pub fn hash_w(w: &W512) -> u64 {
    let mut h = 0xcbf2_9ce4_8422_2325u64;
    for x in w.0 {
        h ^= x;
        h = h.wrapping_mul(0x0000_0100_0000_01B3).rotate_left(23) ^ (h >> 29);
    }
    h
}

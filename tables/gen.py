#!/usr/bin/env python3-vt
"""Correctly rounded reference tables for C11 (P16E1: 10 functions, P8E0: exp, ln).

mpmath at 400 bits -> exact Fraction -> posit-rule rounding written with `fractions` (pymodel/posit.py,
an implementation independent of both the crate and the Rust oracle). Exact cases are evaluated
symbolically; everywhere else the value is transcendental, and the generator ASSERTS that the
400-bit enclosure [y(1-2^-380), y(1+2^-380)] rounds to a single encoding (no table entry rests on
an assumed margin). The tables depend on mathematics only, never on /repo.

usage: gen.py <function> <n> <es> <out.bin>      (little-endian u16 per input pattern)
"""
import sys, struct, os
from fractions import Fraction
import mpmath as mp
sys.path.insert(0, os.path.join(os.path.dirname(os.path.abspath(__file__)), '..', 'pymodel'))
from posit import decode, encode_round
mp.mp.prec = 400
EPS = Fraction(1, 2**380)

def tofrac(x):
    s, man, exp, bc = x._mpf_
    v = Fraction(int(man)) * (Fraction(2) ** int(exp))
    return -v if s else v
def fr2mp(fr):
    return mp.mpf(fr.numerator) / mp.mpf(fr.denominator)
def pow2_exp(x):
    """k if x == 2^k exactly else None"""
    n, d = x.numerator, x.denominator
    if n > 0 and n & (n - 1) == 0 and d & (d - 1) == 0:
        return n.bit_length() - d.bit_length()
    return None
EXACT = object()
def f_exp(x):
    if x == 0: return (EXACT, Fraction(1))
    return mp.exp(fr2mp(x))
def f_exp2(x):
    if x.denominator == 1 and abs(x) < 4000: return (EXACT, Fraction(2) ** int(x))
    return mp.power(2, fr2mp(x))
def f_ln(x):
    if x <= 0: return None
    if x == 1: return (EXACT, Fraction(0))
    return mp.log(fr2mp(x))
def f_log2(x):
    if x <= 0: return None
    k = pow2_exp(x)
    if k is not None: return (EXACT, Fraction(k))
    return mp.log(fr2mp(x), 2)
def red2(x): return x - 2 * (x // 2)
def f_sin_pi(x):
    r = red2(x)
    if r in (0, 1): return (EXACT, Fraction(0))
    if r == Fraction(1, 2): return (EXACT, Fraction(1))
    if r == Fraction(3, 2): return (EXACT, Fraction(-1))
    return mp.sin(mp.pi * fr2mp(r))
def f_cos_pi(x):
    r = red2(x)
    if r in (Fraction(1, 2), Fraction(3, 2)): return (EXACT, Fraction(0))
    if r == 0: return (EXACT, Fraction(1))
    if r == 1: return (EXACT, Fraction(-1))
    return mp.cos(mp.pi * fr2mp(r))
def f_tan_pi(x):
    r = x - (x // 1)
    if r == Fraction(1, 2): return None
    if r == 0: return (EXACT, Fraction(0))
    if r == Fraction(1, 4): return (EXACT, Fraction(1))
    if r == Fraction(3, 4): return (EXACT, Fraction(-1))
    return mp.tan(mp.pi * fr2mp(r))
def f_asin_pi(x):
    if abs(x) > 1: return None
    if x == 0: return (EXACT, Fraction(0))
    if abs(x) == 1: return (EXACT, Fraction(1, 2) * (1 if x > 0 else -1))
    return mp.asin(fr2mp(x)) / mp.pi
def f_acos_pi(x):
    if abs(x) > 1: return None
    if x == 1: return (EXACT, Fraction(0))
    if x == 0: return (EXACT, Fraction(1, 2))
    if x == -1: return (EXACT, Fraction(1))
    return mp.acos(fr2mp(x)) / mp.pi
def f_atan_pi(x):
    if x == 0: return (EXACT, Fraction(0))
    if abs(x) == 1: return (EXACT, Fraction(1, 4) * (1 if x > 0 else -1))
    return mp.atan(fr2mp(x)) / mp.pi
FUNS = dict(exp=f_exp, exp2=f_exp2, ln=f_ln, log2=f_log2, sin_pi=f_sin_pi, cos_pi=f_cos_pi, tan_pi=f_tan_pi,
            asin_pi=f_asin_pi, acos_pi=f_acos_pi, atan_pi=f_atan_pi)

def table(name, n, es):
    f = FUNS[name]
    nar = 1 << (n - 1)
    out = []
    margins_checked = 0
    for bits in range(1 << n):
        x = decode(n, es, bits)
        if x is None: out.append(nar); continue
        y = f(x)
        if y is None: out.append(nar); continue
        if isinstance(y, tuple):
            out.append(encode_round(n, es, y[1])); continue
        assert y != 0, (name, bits)
        # saturate before converting astronomically large / small results to Fraction
        lim = (1 << es) * (n - 2) + 4
        ex = y._mpf_[2] + y._mpf_[3]
        if ex > lim or ex < -lim:
            p = ((1 << (n - 1)) - 1) if ex > 0 else 1
            out.append(p if y > 0 else ((-p) & ((1 << n) - 1))); continue
        yf = tofrac(y)
        lo, hi = encode_round(n, es, yf * (1 - EPS)), encode_round(n, es, yf * (1 + EPS))
        assert lo == hi, "margin too small for %s(%#x)" % (name, bits)
        margins_checked += 1
        out.append(lo)
    return out, margins_checked

if __name__ == '__main__':
    name, n, es, path = sys.argv[1], int(sys.argv[2]), int(sys.argv[3]), sys.argv[4]
    t, m = table(name, n, es)
    with open(path, 'wb') as fh:
        fh.write(struct.pack('<%dH' % len(t), *t))
    print("%s n=%d: %d entries, %d enclosure checks passed" % (name, n, len(t), m))

#!/bin/bash
# Regenerates every C11 reference table (about 1 minute on 16 cores) and verifies SHA256SUMS.
cd "$(dirname "$0")"
for f in exp exp2 ln log2 sin_pi cos_pi tan_pi asin_pi acos_pi atan_pi; do python3-vt gen.py $f 16 1 p16_$f.bin & done
python3-vt gen.py exp 8 0 p8_exp.bin & python3-vt gen.py ln 8 0 p8_ln.bin &
wait
if [ -f SHA256SUMS ]; then sha256sum -c SHA256SUMS; else sha256sum *.bin > SHA256SUMS; fi
